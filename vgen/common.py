"""Shared vocabulary of the matrix emitters."""
from verif import Unit  # noqa: F401

# C++ spellings of the built-in integer types and their (bits, signed)
INTS = {
    'signed char': (8, True), 'unsigned char': (8, False),
    'short': (16, True), 'unsigned short': (16, False),
    'int': (32, True), 'unsigned': (32, False),
    'long': (64, True), 'unsigned long': (64, False),
    'vf::i128': (128, True), 'vf::u128': (128, False),
}
S8, U8, S16, U16, S32, U32, S64, U64, S128, U128 = list(INTS)
SIGNED = [t for t, (b, s) in INTS.items() if s]
UNSIGNED = [t for t, (b, s) in INTS.items() if not s]
UPTO64 = [t for t, (b, s) in INTS.items() if b <= 64]
ROUNDING_TAGS = ['cnl::native_rounding_tag', 'cnl::neg_inf_rounding_tag', 'cnl::nearest_rounding_tag',
                 'cnl::tie_to_pos_inf_rounding_tag']


def bits(t):
    return INTS[t][0]


def signed(t):
    return INTS[t][1]


def split(units_regs, n):
    """split a list into n nearly equal parts (dropping empty ones)"""
    k = max(1, (len(units_regs) + n - 1) // n)
    return [units_regs[i:i + k] for i in range(0, len(units_regs), k)]


def with_fuzz(plan, prop, header, regs, tier, quick_runs, thorough_runs, max_len=514, chunk=6, tick_limit=None, only=None):
    """adds a libFuzzer + ASan + UBSan target over `regs` (the same sites) to a plan"""
    import verif
    fu = Unit('%s-fuzz' % prop, 'fuzz', header, regs, chunk=chunk, tick_limit=tick_limit)
    plan['units'].append(fu)
    prev = plan.get('extra')
    quick = tier == 'quick'

    def extra(ctx):
        out = list(prev(ctx)) if prev else []
        out.append(verif.run_fuzz(fu, ctx, runs=quick_runs if quick else thorough_runs, workers=4 if quick else 16, max_len=max_len, only=only))
        return out
    plan['extra'] = extra
    return plan

"""Shared vocabulary of the matrix emitters."""
from verif import Unit  # noqa: F401

# C++ spellings of the built-in integer types and their (bits, signed)
INTS = {
    'signed char': (8, True), 'unsigned char': (8, False),
    'short': (16, True), 'unsigned short': (16, False),
    'int': (32, True), 'unsigned': (32, False),
    'long': (64, True), 'unsigned long': (64, False),
    'vf::i128': (128, True), 'vf::u128': (128, False),
}
S8, U8, S16, U16, S32, U32, S64, U64, S128, U128 = list(INTS)
SIGNED = [t for t, (b, s) in INTS.items() if s]
UNSIGNED = [t for t, (b, s) in INTS.items() if not s]
UPTO64 = [t for t, (b, s) in INTS.items() if b <= 64]
ROUNDING_TAGS = ['cnl::native_rounding_tag', 'cnl::neg_inf_rounding_tag', 'cnl::nearest_rounding_tag',
                 'cnl::tie_to_pos_inf_rounding_tag']


def bits(t):
    return INTS[t][0]


def signed(t):
    return INTS[t][1]


def split(units_regs, n):
    """split a list into n nearly equal parts (dropping empty ones)"""
    k = max(1, (len(units_regs) + n - 1) // n)
    return [units_regs[i:i + k] for i in range(0, len(units_regs), k)]


def with_fuzz(plan, prop, header, regs, tier, quick_runs, thorough_runs, max_len=514, chunk=6, tick_limit=None, only=None):
    """adds a libFuzzer + ASan + UBSan target over `regs` (the same sites) to a plan"""
    import verif
    fu = Unit('%s-fuzz' % prop, 'fuzz', header, regs, chunk=chunk, tick_limit=tick_limit)
    plan['units'].append(fu)
    prev = plan.get('extra')
    quick = tier == 'quick'

    def extra(ctx):
        out = list(prev(ctx)) if prev else []
        out.append(verif.run_fuzz(fu, ctx, runs=quick_runs if quick else thorough_runs, workers=4 if quick else 16, max_len=max_len, only=only))
        return out
    plan['extra'] = extra
    return plan


def sweep_units(prop, header, sweeps, cases, nunits=8, step=12, keep=None, **unit_kw):
    """Units of vf::Sweep sites (harness/sweep.h). sweeps: (alias, site type with the template argument written E, site name
    without the range, lo, hi[, suffix]). One registration covers `step` consecutive arguments. keep(reg_text) filters (quick tiers)."""
    prelude = ''.join('template<int E> using %s = %s;\n' % (sw[0], sw[1]) for sw in sweeps)
    regs = []
    for sw in sweeps:
        alias, body, label, lo, hi = sw[:5]
        tail = sw[5] if len(sw) > 5 else ''
        for a in range(lo, hi + 1, step):
            cnt = min(step, hi + 1 - a)
            regs.append('vf::Sweep<%s, %d, %d>::reg("%s|%s|%dto%d%s")' % (alias, a, cnt, prop, label, a, a + cnt - 1, tail))
    if keep:
        regs = [r for i, r in enumerate(regs) if keep(i, r)]
    return [Unit('%s-sweep-%d' % (prop, i), 'gxx', header, part, rc_cases=cases, enum_max=0, chunk=4, prelude=prelude, **unit_kw)
            for i, part in enumerate(split(regs, nunits)) if part]

"""C17 — fraction from floating point (DESIGN 5, C17)."""
from .common import *
from .C01 import short

RULE = ('cases: finite floating-point inputs with |x| within the numerator range for (component type, float type) pairs: the '
        'float exponent x 512-point mantissa lattice enumerated for both signs, plus generated ratios p/q with small components, '
        'decimal and dyadic fractions, integers, full-mantissa random values and values next to the numerator limit. oracle: '
        'terminates within 1e5 loop iterations (hook H3), no assertion/UB, denominator > 0, sign of the input, components in '
        'range; equal to x when x is a ratio of two representable integers, otherwise between the adjacent integers and '
        '|f - x| < max(1,|x|) * 2^(4-D) (GMP rationals on the bit-exact input). non-trivial: x is not an integer; distinct by '
        '(site, x).')


def plan(tier, seed):
    quick = tier == 'quick'
    regs = []
    for t, f, fl in [(S32, 'float', 'f32'), (S64, 'double', 'f64'), (S64, 'float', 'f32'), (S128, 'long double', 'f80'), (S16, 'float', 'f32'),
                     (S32, 'double', 'f64'), (S16, 'double', 'f64'), (S8, 'float', 'f32'), (S64, 'long double', 'f80')]:
        for route in (0, 1):
            regs.append('c17::FromFloat<%s, %s, %d>::reg("%s|%s")' % (t, f, route, short(t), fl))
    cases = 60000 if quick else 1500000
    units = [Unit('C17-gxx-%d' % i, 'gxx', 'props/C17.h', part, rc_cases=cases, enum_max=2 ** 24, chunk=2, tick_limit=100000)
             for i, part in enumerate(split(regs, 9))]
    units.append(Unit('C17-clang', 'clang', 'props/C17.h', regs[:4], rc_cases=cases, enum_max=2 ** 24, chunk=2, tick_limit=100000))
    from .common import with_fuzz
    return with_fuzz(dict(units=units, rule=RULE, assumptions=['termination is approximated by a bound of 1e5 iterations of the search loop (it normally needs < 200)']), 'C17', 'props/C17.h', regs[::2][:6], tier, 60000, 3000000, max_len=66, chunk=2, tick_limit=100000)

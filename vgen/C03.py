"""C03 — comparisons (DESIGN 5, C03)."""
from .common import *
from .C01 import sc, short, EXPS

RULE = ('cases: pairs (a, b) for the six comparison operators in both operand orders over three families: scaled_integer pairs '
        '(8..64-bit rep pairs x exponent pairs, radix 2 and 10), elastic_integer / elastic_scaled_integer pairs (digits 1..100, '
        'both signednesses), wide_integer pairs (64..2048 digits, limb types, signed/unsigned), plus number-vs-built-in '
        'comparisons against the same comparison with the built-in wrapped in the CNL type. operands are correlated: b is '
        'generated as a\'s value expressed at b\'s exponent, rounded down/up, +-1 unit; 8-bit x 8-bit rep planes enumerated. '
        'oracle: order of the exact values rep x radix^exp (GMP); for built-in reps of different signedness whose common type '
        'is unsigned, the built-in comparison of the exponent-aligned promoted reps (statement, last sentence). precondition '
        '(built-in reps): the alignment fits the promoted rep. non-trivial: operand types differ and values within one coarse '
        'unit or of opposite sign; distinct by (site, reps).')

ELASTIC = [(1, 'int'), (7, 'int'), (8, 'unsigned'), (15, 'int'), (16, 'unsigned'), (31, 'int'), (32, 'unsigned'), (40, 'int'),
           (63, 'int'), (64, 'unsigned'), (100, 'int'), (100, 'unsigned'), (8, 'signed char'), (24, 'unsigned char')]


def plan(tier, seed):
    quick = tier == 'quick'
    regs = []
    for lr in UPTO64:
        for rr in UPTO64:
            for k, (el, er) in enumerate(EXPS):
                if quick and (UPTO64.index(lr) + UPTO64.index(rr) + k) % 3 != 1:
                    continue
                regs.append('c03::Cmp<%s, %s, 1>::reg("scaled|%s:%d|%s:%d")' % (sc(lr, el), sc(rr, er), short(lr), el, short(rr), er))
    for lr, rr, el, er in [(S32, S32, -2, 0), (S64, S32, 0, -3), (S16, U8, 1, -1), (U32, U64, -4, -4), (S64, S64, 3, 5), (S32, U32, -1, 0)]:
        regs.append('c03::Cmp<%s, %s, 1>::reg("scaled10|%s:%d|%s:%d")' % (sc(lr, el, 10), sc(rr, er, 10), short(lr), el, short(rr), er))
    # radix 10 over narrow and wide reps with gaps whose factor exceeds the narrow rep itself (10^3 > int8, 10^5 > int16)
    R10 = [S8, U8, S16, U16, S32, S64]
    E10 = [(0, -3), (-5, 0), (2, -2), (1, 6), (-1, -1), (-4, 3), (0, -7)]
    for i, lr in enumerate(R10):
        for j, rr in enumerate(R10):
            for k, (el, er) in enumerate(E10):
                if quick and (i + j + k) % 3:
                    continue
                regs.append('c03::Cmp<%s, %s, 1>::reg("scaled10|%s:%d|%s:%d")' % (sc(lr, el, 10), sc(rr, er, 10), short(lr), el, short(rr), er))
    # elastic family: by value
    for i, (d1, n1) in enumerate(ELASTIC):
        for j, (d2, n2) in enumerate(ELASTIC):
            if quick and (i * 5 + j) % 4:
                continue
            regs.append('c03::Cmp<cnl::elastic_integer<%d, %s>, cnl::elastic_integer<%d, %s>, 0>::reg("elastic|%d_%s|%d_%s")'
                        % (d1, n1, d2, n2, d1, short(n1), d2, short(n2)))
    for (d1, n1, e1, d2, n2, e2) in [(16, 'int', -8, 16, 'unsigned', -8), (31, 'int', -16, 8, 'unsigned', 0), (40, 'int', -20, 10, 'int', 3),
                                     (8, 'unsigned', 0, 63, 'int', -31), (24, 'int', 4, 24, 'unsigned', -4), (100, 'int', -50, 20, 'unsigned', -10)]:
        regs.append('c03::Cmp<cnl::elastic_scaled_integer<%d, cnl::power<%d>, %s>, cnl::elastic_scaled_integer<%d, cnl::power<%d>, %s>, 0>::reg("elastic_scaled|%d_%s:%d|%d_%s:%d")'
                    % (d1, e1, n1, d2, e2, n2, d1, short(n1), e1, d2, short(n2), e2))
    # wide family
    WIDE = [(64, 'int'), (128, 'int'), (200, 'int'), (200, 'unsigned'), (256, 'unsigned'), (1000, 'int'), (2048, 'unsigned'), (300, 'std::uint8_t'),
            (129, 'std::int16_t'), (2048, 'std::uint8_t'), (2047, 'std::int8_t')]  # the last two: 256 limbs (limb indices no longer fit 8 bits)
    for i, (d1, n1) in enumerate(WIDE):
        for j, (d2, n2) in enumerate(WIDE):
            if i != j and (quick and (i + j) % 3):
                continue
            regs.append('c03::Cmp<cnl::wide_integer<%d, %s>, cnl::wide_integer<%d, %s>, 2>::reg("wide|%d_%s|%d_%s")'
                        % (d1, n1, d2, n2, d1, short(n1), d2, short(n2)))
    # number vs built-in
    for t, tl in [(sc(S32, -8), 'scaled_int:-8'), (sc(U16, 3), 'scaled_u16:3'), ('cnl::elastic_integer<20>', 'elastic20'),
                  ('cnl::elastic_integer<40, unsigned>', 'elastic40u'), ('cnl::wide_integer<200>', 'wide200'),
                  ('cnl::elastic_scaled_integer<24, cnl::power<-10>>', 'esi24:-10')]:
        for b in (S8, U8, S32, U32, S64, U64):
            if 'scaled_integer' in t and 'elastic' not in t:
                wrapped = 'cnl::scaled_integer<%s, cnl::power<0>>' % b
            elif 'elastic_scaled' in t:
                wrapped = 'cnl::elastic_scaled_integer<%d, cnl::power<0>, %s>' % (bits(b) - (1 if signed(b) else 0), 'int' if signed(b) else 'unsigned')
            elif 'elastic' in t:
                wrapped = 'cnl::elastic_integer<%d, %s>' % (bits(b) - (1 if signed(b) else 0), 'int' if signed(b) else 'unsigned')
            else:
                wrapped = 'cnl::wide_integer<%d, %s>' % (bits(b) - (1 if signed(b) else 0), 'int' if signed(b) else 'unsigned')
            regs.append('c03::VsBuiltin<%s, %s, %s>::reg("%s|%s")' % (t, b, wrapped, tl, short(b)))
    cases = 20000 if quick else 150000
    units = [Unit('C03-gxx-%d' % i, 'gxx', 'props/C03.h', part, rc_cases=cases, enum_max=2 ** 17, chunk=10)
             for i, part in enumerate(split(regs, 16))]
    cl = [r for r in regs if 'elastic|' in r][:12] + [r for r in regs if 'scaled|int:' in r][:10] + [r for r in regs if 'wide|' in r][:6]
    units.append(Unit('C03-clang', 'clang', 'props/C03.h', cl, rc_cases=cases, enum_max=2 ** 17, chunk=10))
    # every exponent distance, both orders of (coarser, finer) and of (wider, narrower) rep: the two mirrored comparison specialisations
    # (distances are bounded by the digits of the promoted coarser rep: beyond that the alignment is ill-formed / a shift by >= width)
    ESI = 'cnl::elastic_scaled_integer'
    pE = 'cnl::power<E>'
    sweeps = [
        ('Sw_s32_s32', 'c03::Cmp<%s, cnl::scaled_integer<int, %s>, 1>' % (sc(S32, 0), pE), 'scaled|sweep|int:0|int:E', -30, 30),
        ('Sw_s64_s32', 'c03::Cmp<%s, cnl::scaled_integer<int, %s>, 1>' % (sc(S64, 0), pE), 'scaled|sweep|long:0|int:E', -62, 30),
        ('Sw_s32_s64', 'c03::Cmp<%s, cnl::scaled_integer<long, %s>, 1>' % (sc(S32, 0), pE), 'scaled|sweep|int:0|long:E', -30, 62),
        ('Sw_u64_u16', 'c03::Cmp<%s, cnl::scaled_integer<unsigned short, %s>, 1>' % (sc(U64, 0), pE), 'scaled|sweep|unsigned_long:0|unsigned_short:E', -63, 30),
        ('Sw_s8_s64', 'c03::Cmp<cnl::scaled_integer<signed char, %s>, %s, 1>' % (pE, sc(S64, 0)), 'scaled|sweep|signed_char:E|long:0', -62, 30),
        ('Sw_e30_e30', 'c03::Cmp<%s<30, cnl::power<0>>, %s<30, %s>, 0>' % (ESI, ESI, pE), 'elastic_scaled|sweep|30_int:0|30_int:E', -70, 70),
        ('Sw_e60_e12u', 'c03::Cmp<%s<60, %s>, %s<12, cnl::power<0>, unsigned>, 0>' % (ESI, pE, ESI), 'elastic_scaled|sweep|60_int:E|12_unsigned:0', -60, 60),
    ]
    units += sweep_units('C03', 'props/C03.h', sweeps, cases * 2, nunits=8, keep=(lambda i, r: i % 2 == 0) if quick else None)
    return dict(units=units, rule=RULE, assumptions=['operands enter wide and elastic types through their representation (limb arrays / from_rep), not through CNL arithmetic'])

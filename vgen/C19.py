"""C19 — sqrt is the floor square root (DESIGN 5, C19)."""
from .common import *

RULE = ('cases: non-negative x per type; all values of types with <= 16 value digits (quick) / <= 32 (thorough) enumerated; '
        'wider types by perfect squares r^2, r^2+-1, boundary values and random bits. oracle: r >= 0 and r^2 <= x < (r+1)^2 in '
        'GMP integers on the representations (no reference sqrt), elastic result within 2^ceil(D/2)-1, static result-type '
        'checks; loop-iteration bound 1e5 (hook H3) for termination. non-trivial: x >= 2; distinct by (site, x).')


def plan(tier, seed):
    quick = tier == 'quick'
    regs = []
    for t, (b, s) in INTS.items():
        d = b - 1 if s else b
        regs.append('c19::Sqrt<%s, %d, 0>::reg("int|%s")' % (t, d, t.replace('vf::', '')))
    for d in (1, 2, 7, 8, 9, 15, 16, 17, 24, 31, 32, 33, 40, 62, 63, 64, 100, 126, 127):
        for nar in ('int', 'unsigned', 'signed char'):
            dd = d
            regs.append('c19::Sqrt<cnl::elastic_integer<%d, %s>, %d, 1>::reg("elastic|%d|%s")' % (d, nar, dd, d, nar))
    for d in (128, 200, 256, 500):
        regs.append('c19::Sqrt<cnl::elastic_integer<%d, cnl::wide_integer<31, int>>, %d, 1>::reg("elastic|%d|wide31")' % (d, d, d))
    for d, nar in ((128, 'unsigned'), (200, 'int'), (255, 'int'), (256, 'unsigned'), (1000, 'int'), (300, 'std::uint8_t')):
        regs.append('c19::Sqrt<cnl::wide_integer<%d, %s>, %d, 0>::reg("wide|%d|%s")' % (d, nar, d, d, nar))
    for rep, d in (('signed char', 7), ('unsigned char', 8), ('short', 15), ('unsigned short', 16), ('int', 31), ('unsigned', 32),
                   ('long', 63), ('unsigned long', 64), ('vf::i128', 127), ('cnl::elastic_integer<40>', 40),
                   ('cnl::wide_integer<200>', 200)):
        for e in (-60, -30, -8, -2, 0, 2, 10, 60):
            regs.append('c19::Sqrt<cnl::scaled_integer<%s, cnl::power<%d>>, %d, 2, %d, 2>::reg("scaled|%s|%d")' % (rep, e, d, e, rep.replace('vf::', ''), e))
        for e in (-4, 2):
            regs.append('c19::Sqrt<cnl::scaled_integer<%s, cnl::power<%d, 10>>, %d, 2, %d, 10>::reg("scaled10|%s|%d")' % (rep, e, d, e, rep.replace('vf::', ''), e))
    cases = 60000 if quick else 800000
    enum_max = 2 ** 16 if quick else 2 ** 24
    units = [Unit('C19-gxx-%d' % i, 'gxx', 'props/C19.h', part, rc_cases=cases, enum_max=enum_max, chunk=12)
             for i, part in enumerate(split(regs, 14))]
    cl = [r for r in regs if '"int|' in r or 'elastic|40|' in r or 'wide|200' in r]
    units.append(Unit('C19-clang', 'clang', 'props/C19.h', cl, rc_cases=cases, enum_max=enum_max, chunk=12))
    if not quick:
        # every value of the 31/32-digit built-in types (2^31 / 2^32 cases each), striped over 16 processes
        units.append(Unit('C19-gxx-full32', 'gxx', 'props/C19.h', [r for r in regs if '"int|int"' in r or '"int|unsigned"' in r], rc_cases=0, enum_max=2 ** 32, chunk=2))
    # every digit count / every even exponent
    sweeps = [
        ('Sw_wide_i', 'c19::Sqrt<cnl::wide_integer<E, int>, E, 0>', 'wide|sweep|E|int', 65, 192),
        ('Sw_wide_u', 'c19::Sqrt<cnl::wide_integer<E, unsigned>, E, 0>', 'wide|sweep|E|unsigned', 65, 192),
        ('Sw_el_i', 'c19::Sqrt<cnl::elastic_integer<E, int>, E, 1>', 'elastic|sweep|E|int', 1, 126),
        ('Sw_el_u', 'c19::Sqrt<cnl::elastic_integer<E, unsigned>, E, 1>', 'elastic|sweep|E|unsigned', 1, 126),
        ('Sw_sc_s64', 'c19::Sqrt<cnl::scaled_integer<long, cnl::power<2 * E>>, 63, 2, 2 * E, 2>', 'scaled|sweep|long|2E', -35, 35),
        ('Sw_sc_u32', 'c19::Sqrt<cnl::scaled_integer<unsigned, cnl::power<2 * E>>, 32, 2, 2 * E, 2>', 'scaled|sweep|unsigned|2E', -35, 35),
        ('Sw_sc_s16', 'c19::Sqrt<cnl::scaled_integer<short, cnl::power<2 * E>>, 15, 2, 2 * E, 2>', 'scaled|sweep|short|2E', -35, 35),
    ]
    units += sweep_units('C19', 'props/C19.h', sweeps, cases, nunits=12, keep=(lambda i, r: i % 2 == 0) if quick else None, tick_limit=100000)
    p = dict(units=units, rule=RULE, assumptions=['termination is "within 1e5 iterations of the instrumented loops"'])
    if not quick:
        p['stripes'] = {u.name: (16 if u.name.endswith('full32') else 4) for u in units}
    return p

"""C15 — literals, parsing, constant-driven deduction (DESIGN 5, C15). The generated programs are the inputs."""
import random
from fractions import Fraction
from .common import *
from .C01 import short

RULE = ('cases: generated programs. literal tokens for _c (up to 127 bits), _wide (up to 600 decimal digits), _cnl (integer + '
        'fractional digits) and _cnl2 (dyadic rationals) in bases 2/8/10/16, every digit count class incl. lengths straddling the '
        'parser chunk sizes (18/15/21/63 +-1 and multiples), leading digits on both sides of the width estimate, separators at random '
        'positions, negated; constants from {0, +-1, 2^k, 2^k+-1, alternating bit patterns} for k up to 126 through make_elastic_integer, '
        'make_elastic_scaled_integer, make_static_integer, make_static_number, make_scaled_integer and class template argument '
        'deduction; run-time cnl::_impl::parse<T> on grammar-generated tokens and factories on run-time values. oracle: Python '
        'integers / Fractions for the meaning of each token; value equality, and digits / exponent / radix where the declared return '
        'type promises them (used digits of the value, trailing zero bits moved into the exponent). ill-formed tokens are outside the '
        'domain by construction. non-trivial: token longer than one chunk, with a separator, a fractional part or negative; distinct '
        'by token.')

CHUNK = {10: 18, 16: 15, 8: 21, 2: 63}
EXCLUDED = {}  # known findings excluded by construction: id -> tokens skipped by this emission
BITS = {10: 3.3219280948873626, 16: 4, 8: 3, 2: 1}
PREFIX = {10: '', 16: '0x', 8: '0', 2: '0b'}
ALPHA = '0123456789abcdef'


def gen_digits(rng, base, nd, lead_small=None):
    ds = [rng.randrange(base) for _ in range(nd)]
    if nd > 1 or True:
        lo = 1
        if lead_small is True:
            ds[0] = rng.randrange(lo, max(lo + 1, (base + 1) // 2))  # first_digit*2 < base
        elif lead_small is False:
            ds[0] = rng.randrange((base + 1) // 2, base)
        else:
            ds[0] = rng.randrange(lo, base)
    return ds


def with_separators(rng, chars):
    out = []
    for i, c in enumerate(chars):
        out.append(c)
        if i + 1 < len(chars) and rng.random() < 0.15:
            out.append("'")
    return ''.join(out)


def int_token(rng, base, maxbits):
    maxdigits = max(1, int(maxbits / BITS[base]))
    pick = rng.random()
    st = CHUNK[base]
    if pick < 0.3:
        nd = rng.randint(1, maxdigits)
    elif pick < 0.6:
        nd = st * rng.randint(1, 4) + rng.randint(-1, 1)
    elif pick < 0.8:
        nd = maxdigits - rng.randint(0, 2)
    else:
        nd = rng.randint(1, 6)
    nd = max(1, min(nd, maxdigits))
    ds = gen_digits(rng, base, nd, rng.choice([True, False, None]))
    value = 0
    for dgt in ds:
        value = value * base + dgt
    while value.bit_length() > maxbits:
        ds = ds[:-1]
        value = 0
        for dgt in ds:
            value = value * base + dgt
    chars = [ALPHA[dgt] if rng.random() < 0.5 else ALPHA[dgt].upper() for dgt in ds]
    body = with_separators(rng, chars)
    if base != 10 and rng.random() < 0.25 and len(ds) + 6 <= maxdigits:
        # redundant leading zeros, with separators inside the run and right after it (same value)
        zeros = rng.randint(1, 5)
        body = "'".join('0' * n for n in ([zeros] if rng.random() < 0.3 else [max(1, zeros - 1), 1])) + ("'" if rng.random() < 0.7 else '') + body
    prefix = PREFIX[base]
    if base == 16 and rng.random() < 0.5:
        prefix = '0X'
    if base == 2 and rng.random() < 0.5:
        prefix = '0B'
    if base == 8 and value == 0 and len(ds) == 1:
        prefix = ''
    return prefix + body, value


def frac(v):
    return '%d/%d' % (v.numerator, v.denominator)


def used_digits(v):
    return abs(v).bit_length()


def trailing_bits(v):
    return (v & -v).bit_length() - 1 if v else 0


def emit(seed, n_tokens, n_consts):
    EXCLUDED.clear()
    rng = random.Random(seed * 7919 + 17)
    L = 'using namespace cnl::literals; '
    regs = []
    seen = set()

    def add(site, token_text, expr, value, digits=-1, exponent='INT_MIN', radix=0):
        if (site, token_text) in seen:
            return
        seen.add((site, token_text))
        regs.append('c15::entry("C15|literal|%s", "%s", "%s", %s, %s, %d, [] { %sreturn c15::describe(%s); })'
                    % (site, token_text.replace('\\', ''), frac(Fraction(value)), digits, exponent, radix, L, expr))

    for i in range(n_tokens):
        base = rng.choice([10, 16, 8, 2])
        # _c : constant<intmax_t>
        tok, v = int_token(rng, base, 127)
        neg = rng.random() < 0.3
        add('_c', ('-' if neg else '') + tok, ('-' if neg else '') + tok + '_c', -v if neg else v)
        # _wide
        tok, v = int_token(rng, base, 1990)
        if base == 10:
            nd = sum(c.isdigit() for c in tok)
            first = int([c for c in tok if c.isdigit()][0])
            est = (nd * 3322 + 678) // 1000 - (1 if first * 2 < 10 else 0)
            if v.bit_length() > est:
                EXCLUDED['C15-wide-decimal-width-estimate'] = EXCLUDED.get('C15-wide-decimal-width-estimate', 0) + 1
                continue  # known finding: the deduced width is too small, the literal does not compile
        add('_wide', tok, tok + '_wide', v)
    for i in range(n_tokens // 2):
        # _cnl : decimal integer + fraction, at most 36 significant digits
        ni, nf = rng.randint(1, 18), rng.randint(0, 17)
        ip = gen_digits(rng, 10, ni)
        if ni > 1 or rng.random() < 0.5:
            pass
        fp = [rng.randrange(10) for _ in range(nf)]
        value = Fraction(int(''.join(map(str, ip)))) + (Fraction(int(''.join(map(str, fp))), 10 ** nf) if nf else 0)
        sep_int = with_separators(rng, [str(x) for x in ip])
        tok = sep_int + ('.' + with_separators(rng, [str(x) for x in fp]) if nf else '')
        alld = ''.join(map(str, ip)) + ''.join(map(str, fp))
        if nf and len(alld) - len(alld.rstrip('0')) > nf:
            EXCLUDED['C15-cnl-integer-with-fraction-zeros'] = EXCLUDED.get('C15-cnl-integer-with-fraction-zeros', 0) + 1
            continue  # known finding: e.g. 10.0_cnl never finishes constant evaluation
        add('_cnl', tok, tok + '_cnl', value)
        # _cnl2 : dyadic rationals k / 2^j printed exactly
        j = rng.randint(0, 16)
        k = rng.randint(0, 2 ** rng.randint(1, 40))
        value = Fraction(k, 2 ** j)
        s = '%d' % (value.numerator // value.denominator)
        rem = value - value.numerator // value.denominator
        if rem:
            digs = ''
            while rem:
                rem *= 10
                digs += str(rem.numerator // rem.denominator)
                rem -= rem.numerator // rem.denominator
            s += '.' + digs
        add('_cnl2', s, s + '_cnl2', value, radix=2)
    # constants: boundary-rich values of every width
    consts = set([0, 1, -1, 2, 3, 40, -40, 0x5555, 0xAAAA0000])
    for k in range(0, 126, 1 if n_consts > 150 else 5):
        consts.update([1 << k, (1 << k) + 1, (1 << k) - 1, -(1 << k), ((1 << k) - 1) // 3, (0xA5 << k) if k < 118 else 5])
    for k in (7, 8, 15, 16, 31, 32, 33, 63, 64, 65):  # storage-word boundaries at every sampling density
        consts.update([1 << k, (1 << k) + 1, (1 << k) - 1, -(1 << k), -((1 << k) - 1)])
    always = [0, 1, -1, -2, 40, -40, -(1 << 20), -(1 << 125), (1 << 126) - 1, (1 << 100), 0xAAAA0000,  # in every program
              (1 << 32) - 1, -((1 << 32) - 1), (1 << 64) - 1, 0x80000001, 0xFFFFFFFF00, (1 << 63) + 1, (1 << 31) - 1, -((1 << 63) + 1), ((1 << 64) - 1) << 20, (1 << 16) - 1]
    consts = sorted(consts - set(always), key=lambda v: (abs(v), v))
    rng.shuffle(consts)
    for v in always + consts[:max(0, n_consts - len(always))]:
        lit = '(cnl::int128_t{%d} * cnl::int128_t{%d} + cnl::int128_t{%d})' % (v // (1 << 62), 1 << 62, v % (1 << 62)) if abs(v) >= (1 << 62) else '(cnl::int128_t{%d})' % v
        cst = 'cnl::constant<%s>{}' % lit
        ud, tb = used_digits(v), trailing_bits(v)
        add('make_elastic_integer', str(v), 'cnl::make_elastic_integer(%s)' % cst, v, digits=ud)
        add('make_elastic_scaled_integer', str(v), 'cnl::make_elastic_scaled_integer(%s)' % cst, v, digits=max(ud - tb, 1), exponent=tb, radix=2)
        add('make_scaled_integer', str(v), 'cnl::make_scaled_integer(%s)' % cst, v, exponent=tb, radix=2)
        if v != 0:
            add('make_static_integer', str(v), 'cnl::make_static_integer(%s)' % cst, v, digits=ud)
        if v != 0 and tb < 31:
            add('make_static_number', str(v), 'cnl::make_static_number(%s)' % cst, v, digits=ud - tb, exponent=tb, radix=2)
        if abs(v) < (1 << 31):
            add('ctad', str(v), '[] { cnl::scaled_integer x = %s; return x; }()' % cst, v)
            add('ctad_elastic', str(v), '[] { cnl::elastic_integer x = %s; return x; }()' % cst, v)
    # constants whose template argument has an unsigned type, top bit of that type set or not
    for lit, v in [('0xC0000001u', 0xC0000001), ('0xFFFFFFFFu', 0xFFFFFFFF), ('0x80000000u', 0x80000000), ('0x7FFFFFFFu', 0x7FFFFFFF), ('3000000000u', 3000000000),
                   ('0xC000000000000001ull', 0xC000000000000001), ('0xFFFFFFFFFFFFFFFFull', 2 ** 64 - 1), ('0x8000000000000000ull', 2 ** 63), ('12345ull', 12345),
                   ('static_cast<unsigned char>(200)', 200), ('static_cast<unsigned short>(65535)', 65535), ('0u', 0), ('1u', 1)]:
        cst = 'cnl::constant<%s>{}' % lit
        ud, tb = used_digits(v), trailing_bits(v)
        add('make_elastic_integer', 'unsigned-typed ' + lit, 'cnl::make_elastic_integer(%s)' % cst, v, digits=max(ud, 1) if v else -1)
        add('make_elastic_scaled_integer', 'unsigned-typed ' + lit, 'cnl::make_elastic_scaled_integer(%s)' % cst, v, digits=max(ud - tb, 1), exponent=tb, radix=2)
        add('make_scaled_integer', 'unsigned-typed ' + lit, 'cnl::make_scaled_integer(%s)' % cst, v, exponent=tb, radix=2)
    return regs


def plan(tier, seed):
    quick = tier == 'quick'
    regs = emit(seed, 160 if quick else 1500, 72 if quick else 420)
    units = [Unit('C15-lit-gxx-%d' % i, 'gxx', 'props/C15.h', part, rc_cases=0, enum_max=10 ** 6, chunk=60,
                  extra_flags=['-fconstexpr-ops-limit=2000000000', '-fconstexpr-loop-limit=100000000'])
             for i, part in enumerate(split(regs, 16 if quick else 48))]
    rt = ['c15::Parse<long>::reg("i64")', 'c15::Parse<vf::i128>::reg("i128")', 'c15::Parse<unsigned long>::reg("u64")',
          'c15::Parse<cnl::wide_integer<200>>::reg("wide200")', 'c15::Parse<cnl::wide_integer<1000>>::reg("wide1000")',
          'c15::Parse<cnl::wide_integer<2000, unsigned>>::reg("wide2000u")']
    rt += ['c15::FromValue<%s>::reg("%s")' % (t, short(t)) for t in (S8, U8, S16, S32, U32, S64, U64)]
    units.append(Unit('C15-rt-gxx', 'gxx', 'props/C15.h', rt, rc_cases=40000 if quick else 1000000, chunk=4))
    units.append(Unit('C15-rt-clang', 'clang', 'props/C15.h', rt[:3] + rt[6:9], rc_cases=40000 if quick else 1000000, chunk=4))
    excl = dict(EXCLUDED)

    def extra(ctx):
        return [dict(name='emitter', cfg='gxx', evaluations=0, distinct_nontrivial=0,
                     excluded={k: dict(hits=v, example='excluded by construction in the token emitter') for k, v in excl.items()},
                     note='tokens inside a listed known-finding region are not emitted (they do not compile on the pinned tree); counts per finding')]
    from .common import with_fuzz
    return with_fuzz(dict(units=units, rule=RULE, extra=extra, assumptions=['token meanings are computed by Python integers and fractions.Fraction in the emitter; tokens are drawn from VERIF_SEED']), 'C15', 'props/C15.h', rt[:6], tier, 60000, 3000000, max_len=514, chunk=3)

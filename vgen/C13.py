"""C13 — to_chars stays inside the buffer / C14 — text denotes the value (DESIGN 5, C13 and C14)."""
from .common import *
from .C01 import sc, short

RULE13 = ('cases: (type, value, buffer length[, base]) for built-in 8..128-bit integers (bases 2..36), wide_integer, CNL wrappers and '
          'scaled_integer<Rep, power<E, R>> (Rep 8..64-bit and wide, E in -70..70, R in {2,3,8,10}); lengths 0..capacity+2, biased to '
          '0..3, capacity-2..capacity and the exact length needed +-2; every (value, length) pair enumerated for 8/16-bit reps. oracle: '
          'guard zones (256 bytes each side, the whole arena patterned): no byte outside [first,last) changes; on success first < p '
          '<= last, errc{} and bytes in [p,last) untouched; on failure value_too_large and p == last; no assertion, trap, signal or '
          'unbounded loop (hook H3 on descale); to_chars_static / to_string / operator<< succeed for every value and to_chars '
          'succeeds with a buffer of to_chars_capacity. non-trivial: length within 2 of the length needed, length <= 2, or a clean '
          'failure; distinct by (site, value, length, base).')
RULE14 = ('cases: the C13 cases on which to_chars succeeds. oracle: integers: text == the canonical numeral of the value in the base '
          '(GMP mpz_get_str), including most-negative values; scaled_integer: the text must parse as -?digits*[.digits*][e-?digits] '
          'and, with V the exact value rep x radix^exp: same sign (or zero), |T| <= |V|, |V|-|T| < one unit of the last printed digit + '
          '|V|*1e-16 (64-bit significand limit), and T == V whenever V has <= 18 significant decimal digits and the exact expansion '
          'fits the buffer (lengths computed the way CNL lays text out); to_string, to_chars_static and operator<< print the text '
          'to_chars prints into a buffer of the static capacity. non-trivial: every scaled case; integers with more than one digit '
          'or negative; distinct by (site, value, length, base).')

EXPS = [-70, -31, -20, -8, -3, -1, 0, 1, 5, 20, 40, 70]


def make(prop, tier):
    quick = tier == 'quick'
    regs = []
    for t in INTS:
        regs.append('c13::Chars<%s, %d, true>::reg("int|%s")' % (t, prop, short(t)))
    for t, tl in [('cnl::wide_integer<200>', 'wide200'), ('cnl::wide_integer<1000, unsigned>', 'wide1000u'), ('cnl::elastic_integer<20>', 'elastic20'),
                  ('cnl::elastic_integer<63, unsigned>', 'elastic63u'), ('cnl::overflow_integer<int, cnl::saturated_overflow_tag>', 'overflow_sat_int'),
                  ('cnl::rounding_integer<long, cnl::nearest_rounding_tag>', 'rounding_long'), ('cnl::static_integer<40>', 'static_integer40'),
                  ('cnl::wide_integer<100>', 'wide100')]:
        regs.append('c13::Chars<%s, %d, false>::reg("wrapper|%s")' % (t, prop, tl))
    k = 0
    for rep in [S8, U8, S16, U16, S32, U32, S64, U64]:
        for e in EXPS:
            k += 1
            if quick and k % 3 and not (rep in (S8, U8) and e in (-20, -3, 1)):
                continue
            regs.append('c13::Chars<%s, %d, false>::reg("scaled|%s:%d")' % (sc(rep, e), prop, short(rep), e))
    for rep, e, r in [(S32, -4, 10), (S32, 3, 10), (U16, -2, 10), (S16, -5, 3), (U8, 2, 3), (S32, -6, 8), (S64, 4, 8), (S8, -2, 10),
                      # narrow reps whose widest values fill the static capacity, both signs of the exponent, every radix of the statement
                      (S8, 2, 3), (S8, 1, 3), (S8, -2, 3), (S8, 4, 3), (U8, -3, 3), (S16, 3, 3), (S16, 1, 3), (S32, 5, 3), (S32, -7, 3),
                      (S8, 1, 10), (S8, 2, 10), (U8, 1, 10), (S16, 2, 10), (S16, -3, 10), (S8, 1, 8), (S8, -1, 8), (U8, 2, 8), (S16, -3, 8)]:
        regs.append('c13::Chars<%s, %d, false>::reg("scaled_r%d|%s:%d")' % (sc(rep, e, r), prop, r, short(rep), e))
    # 128-bit reps at the ends of the exponent range (decimal exponents of three digits)
    for rep, e, r in [(S128, 70, 10), (S128, 62, 10), (S128, 70, 8), (S128, 69, 8), (S128, -70, 10), (S128, 70, 2), (S128, -70, 2), (U128, 70, 10)]:
        regs.append('c13::Chars<%s, %d, false>::reg("scaled_r%d|%s:%d")' % (sc(rep, e, r), prop, r, short(rep), e))
    for t, tl in [('cnl::elastic_scaled_integer<24, cnl::power<-10>>', 'esi24:-10'), ('cnl::scaled_integer<cnl::wide_integer<100>, cnl::power<-50>>', 'wide100:-50'),
                  ('cnl::static_number<30, -12>', 'static_number30:-12')]:
        regs.append('c13::Chars<%s, %d, false>::reg("scaled|%s")' % (t, prop, tl))
    # static capacity over runs of digit counts (wide_integer 2..263 and 500..523; to_chars of an unsigned wide_integer does not
    # compile on the pinned tree, see wrapper|wide1000u in uncompilable_allow.json; elastic_integer 1..96 of both signednesses: wider ones need a product of more than 127 digits inside to_chars)
    step = 12
    for kind, kn, spans in [(0, 'wide', [(2, 264), (500, 524)]), (2, 'elastic', [(1, 97)]), (3, 'elasticu', [(1, 97)])]:
        for lo_, hi_ in spans:
            for lo in range(lo_, hi_, step):
                if quick and kind >= 2 and (lo // step) % 2:
                    continue
                regs.append('c13::CapSweep<%d, %d, %d, %d>::reg("%s|%d..%d")' % (prop, lo, step, kind, kn, lo, lo + step - 1))
    cases = 60000 if quick else 500000
    units = [Unit('C%d-gxx-%d' % (prop, i), 'gxx', 'props/C13.h', part, rc_cases=cases, enum_max=2 ** 14 if quick else 2 ** 22, chunk=5, tick_limit=100000)
             for i, part in enumerate(split(regs, 16))]
    cl = [r for r in regs if '"int|' in r][:6] + [r for r in regs if 'scaled|int:' in r][:6]
    units.append(Unit('C%d-clang' % prop, 'clang', 'props/C13.h', cl, rc_cases=cases, enum_max=2 ** 14 if quick else 2 ** 22, chunk=5, tick_limit=100000))
    return units


def plan(tier, seed):
    import verif
    quick = tier == 'quick'
    units = make(13, tier)
    # libFuzzer + ASan target over a slice of the same sites with exact-size heap buffers (reads and wild writes)
    regs = [r for u in units if u.cfg == 'gxx' for r in u.regs]
    fz = [r for r in regs if '"int|' in r or 'wrapper|' in r][:14] + [r for r in regs if 'scaled' in r][::3][:18]
    fuzz_unit = Unit('C13-fuzz', 'fuzz', 'props/C13.h', fz, chunk=4, tick_limit=100000)
    units.append(fuzz_unit)

    def extra(ctx):
        return [verif.run_fuzz(fuzz_unit, ctx, runs=120000 if quick else 4000000, workers=4 if quick else 16, max_len=130)]
    return dict(units=units, rule=RULE13, extra=extra, assumptions=[
        'out-of-bounds writes are detected by pattern-filled guard zones around the buffer; the libFuzzer target uses exact-size heap buffers under ASan, which also sees out-of-bounds reads',
        'an unbounded loop is "more than 1e5 iterations of the instrumented descale loops"'])

"""C12 — wrapping is transparent (DESIGN 5, C12)."""
from .common import *
from .C01 import short

RULE = ('cases: (kernel, a, b): kernel = operator (10 binary, 3 unary, 6 comparisons, 10 compound assignments, pre/post ++/--) x '
        'wrapper nesting (scaled_integer<R, power<0>>, overflow_integer<R, native>, rounding_integer<R, native> and their 2- and '
        '3-deep compositions) x 8/16/32/64-bit reps, plus the documentation kernels (multiply-widen, mixed-exponent add/subtract, '
        'average, square) against hand-written shift-and-operate integer code; all 2^16 operand pairs of every 8-bit kernel '
        'enumerated, boundary/pattern/random operands elsewhere. oracle (differential by execution): unwrap(W(a) op W(b)) == a op b '
        'with the same decltype, also with a built-in operand on either side; x op= y == T(x op y); ++/-- == +-1. inputs for which '
        'the built-in expression is undefined (signed overflow, shift out of range, /0, min/-1) are discarded on exact values. '
        'non-trivial: high bit set in an operand or an operand at a limit; distinct by (site, op, operands).')

NEST = [
    ('scaled0', 'cnl::scaled_integer<%s, cnl::power<0>>'),
    ('overflow_native', 'cnl::overflow_integer<%s, cnl::native_overflow_tag>'),
    ('rounding_native', 'cnl::rounding_integer<%s, cnl::native_rounding_tag>'),
    ('scaled0_overflow', 'cnl::scaled_integer<cnl::overflow_integer<%s, cnl::native_overflow_tag>, cnl::power<0>>'),
    ('scaled0_rounding', 'cnl::scaled_integer<cnl::rounding_integer<%s, cnl::native_rounding_tag>, cnl::power<0>>'),
    ('rounding_overflow', 'cnl::rounding_integer<cnl::overflow_integer<%s, cnl::native_overflow_tag>, cnl::native_rounding_tag>'),
    ('scaled0_rounding_overflow', 'cnl::scaled_integer<cnl::rounding_integer<cnl::overflow_integer<%s, cnl::native_overflow_tag>, cnl::native_rounding_tag>, cnl::power<0>>'),
]


def plan(tier, seed):
    quick = tier == 'quick'
    regs = []
    pairs = [(t, t) for t in UPTO64] + [(S8, U8), (S32, S8), (U16, U64), (S64, S32), (U32, S64), (S16, S16)]
    for nn, pat in NEST:
        for l, r in pairs:
            if quick and nn not in ('scaled0', 'overflow_native', 'rounding_native') and (l, r) not in ((S8, S8), (U8, U8), (S32, S32), (U64, U64), (S8, U8)):
                continue
            incdec = 'false' if 'rounding' in nn else 'true'
            regs.append('c12::Kernel<%s, %s, %s, %s, %s>::reg("%s|%s|%s")' % (pat % l, pat % r, l, r, incdec, nn, short(l), short(r)))
    regs.append('c12::DocKernels::reg()')
    # mixed-exponent expressions vs shift-and-operate code
    for l, r, el, er in [(S8, S8, -3, 0), (U8, U8, 0, -2), (S8, U8, 1, -1), (S32, S32, -16, -12), (S32, S32, -12, -16), (U32, U16, -8, 0), (S64, S32, -20, -4),
                         (U64, U64, 3, 0), (S16, S32, -4, -8), (S32, S8, 0, 5), (U16, U16, -7, -1), (S64, S64, -30, -31),
                         # every order of (wider, narrower) rep x (coarser, finer) exponent
                         (S64, S32, 0, -1), (S64, S32, -4, -20), (S64, S8, 3, 0), (S64, U16, -8, -16), (U64, U32, 0, -16), (U64, U8, 5, 1),
                         (S32, S64, 0, -16), (S32, S16, 2, -2), (S16, S64, -4, -8), (U32, S64, 0, -4), (S8, S64, 1, -1), (U8, U64, 0, -3)]:
        regs.append('c12::ScaledMixed<%s, %d, %s, %d>::reg("%s:%d|%s:%d")' % (l, el, r, er, short(l), el, short(r), er))
    # ++ / -- with non-zero exponents, radix 2 and 10
    # (positive exponents, and 2^-E beyond int, are rejected at compile time)
    for rep, e, r in [(S8, -3, 2), (U8, -7, 2), (S16, -8, 2), (S32, -16, 2), (U32, -30, 2), (S64, -30, 2), (S32, -30, 2), (S16, -14, 2),
                      (S32, -2, 10), (S8, -1, 10), (U16, -3, 10), (S64, -9, 10), (S32, -9, 10), (S16, -4, 10), (U8, -2, 10)]:
        regs.append('c12::IncDecScaled<%s, %d, %d>::reg("%s:%d:r%d")' % (rep, e, r, short(rep), e, r))
    cases = 60000 if quick else 600000
    units = [Unit('C12-gxx-%d' % i, 'gxx', 'props/C12.h', part, rc_cases=cases, enum_max=2 ** 22, chunk=3)
             for i, part in enumerate(split(regs, 16))]
    cl = [r for r in regs if 'int, int>' in r or 'signed char, signed char>' in r or 'DocKernels' in r][:10]
    units.append(Unit('C12-clang', 'clang', 'props/C12.h', cl, rc_cases=cases, enum_max=2 ** 22, chunk=3))
    return dict(units=units, rule=RULE, assumptions=[
        'equivalence is established by execution on generated and exhaustively enumerated operands, not on compiled IR',
        'operators a nesting does not provide on the pinned tree are counted under the label operator-not-provided'])

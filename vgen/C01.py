"""C01 — scaled_integer + - * unary- exact (DESIGN 5, C01)."""
from .common import *

RULE = ('cases: (op, a, b) with op in {+,-,*,unary -} over scaled_integer operand pairs: 8x8 built-in 8..64-bit rep pairs x 7 '
        'exponent pairs (equal, both signs of the difference), scaled op built-in integer in both orders, radix 10, 128-bit '
        'and wrapper reps (elastic_integer, rounding_integer, overflow_integer, wide_integer) in the thorough tier, exponents '
        'up to +-70; every 8-bit x 8-bit rep plane enumerated. oracle: value = rep x radix^exponent in GMP rationals; result '
        'exponent min(EL,ER) / EL+ER / EL; rep(result) x radix^exp == exact. preconditions as stated: exponent-aligned operands '
        'fit the promoted rep, exact result fits the result rep. non-trivial: both operands non-zero and (exponents differ or '
        'op is *); distinct by (site, op, reps).')

EXPS = [(0, 0), (-3, 2), (5, -1), (-7, -7), (1, 6), (-12, -4), (9, 3)]


def sc(rep, e, radix=2):
    return 'cnl::scaled_integer<%s, cnl::power<%d%s>>' % (rep, e, '' if radix == 2 else ', %d' % radix)


def short(t):
    return t.replace('vf::', '').replace('cnl::', '').replace(' ', '_')


def plan(tier, seed):
    quick = tier == 'quick'
    regs = []

    def add(l, r, label):
        regs.append('c01::Arith<%s, %s>::reg("%s")' % (l, r, label))

    for lr in UPTO64:
        for rr in UPTO64:
            for (el, er) in EXPS:
                if quick and (UPTO64.index(lr) + UPTO64.index(rr) + EXPS.index((el, er))) % 2:
                    continue  # quick: a fixed half of the matrix (checkerboard), thorough: all of it
                add(sc(lr, el), sc(rr, er), '%s:%d|%s:%d' % (short(lr), el, short(rr), er))
    # built-in integers as exponent 0, both orders
    for t in (S8, U8, S32, U32, S64, U64):
        for e in (-4, 0, 3):
            add(sc(S32, e), t, 'int:%d|builtin_%s' % (e, short(t)))
            add(t, sc(U16, e), 'builtin_%s|unsigned_short:%d' % (short(t), e))
    # radix 10
    for lr, rr, el, er in [(S32, S32, -2, 0), (S64, S32, 0, -3), (S16, U8, 1, -1), (U32, U64, -4, -4), (S64, S64, 3, 5)]:
        add(sc(lr, el, 10), sc(rr, er, 10), 'r10|%s:%d|%s:%d' % (short(lr), el, short(rr), er))
    # radix 10 over narrow and wide reps with gaps that exceed what the narrow rep itself could hold (10^3 > int8, 10^5 > int16)
    R10 = [S8, U8, S16, U16, S32, S64]
    E10 = [(0, -3), (-5, 0), (2, -2), (1, 6), (-1, -1), (-4, 3)]
    for i, lr in enumerate(R10):
        for j, rr in enumerate(R10):
            for k, (el, er) in enumerate(E10):
                if quick and (i + j + k) % 3:
                    continue
                add(sc(lr, el, 10), sc(rr, er, 10), 'r10|%s:%d|%s:%d' % (short(lr), el, short(rr), er))
    for t in (S8, S16, U8):
        add(sc(S32, -3, 10), t, 'r10|int:-3|builtin_%s' % short(t))
        add(t, sc(S16, -5, 10), 'r10|builtin_%s|short:-5' % short(t))
    # elastic_integer reps whose digit counts sit on storage-word boundaries (the result of -x, x+y, x*y moves to the next word)
    def el_(d, n):
        return 'cnl::elastic_integer<%d, %s>' % (d, n)
    for (d1, n1, e1, d2, n2, e2) in [(32, 'unsigned', -8, 32, 'unsigned', 3), (64, 'unsigned', 0, 31, 'int', -5), (16, 'unsigned', 4, 8, 'unsigned', 4),
                                     (8, 'unsigned', 2, 63, 'int', -2), (31, 'int', 0, 32, 'unsigned', -16), (63, 'int', -1, 64, 'unsigned', -1),
                                     (32, 'unsigned char', 0, 15, 'signed char', 0), (7, 'signed char', -3, 64, 'unsigned', 1),
                                     (33, 'unsigned', -1, 30, 'unsigned', 5), (16, 'unsigned', 0, 16, 'int', 0)]:
        add(sc(el_(d1, n1), e1), sc(el_(d2, n2), e2), 'elastic%d_%s:%d|elastic%d_%s:%d' % (d1, short(n1), e1, d2, short(n2), e2))
    # nested wrapper reps as static_number spells them (a rounding_integer around an overflow-checked elastic_integer), 45..100 digits,
    # every rounding tag: sums and products that pass 2^63 and 2^64
    for rt in ('cnl::nearest_rounding_tag', 'cnl::native_rounding_tag', 'cnl::neg_inf_rounding_tag', 'cnl::tie_to_pos_inf_rounding_tag'):
        for (d1, e1, d2, e2) in [(80, -10, 80, -10), (45, -10, 45, -3), (64, 0, 64, -2), (100, -50, 30, 4)]:
            if quick and rt != 'cnl::nearest_rounding_tag' and d1 != 80:
                continue
            sn = 'cnl::static_number<%d, %d, ' + rt + ', cnl::saturated_overflow_tag, int>'
            add(sn % (d1, e1), sn % (d2, e2), 'static_number_%s|%d:%d|%d:%d' % (rt.split('::')[1].replace('_rounding_tag', ''), d1, e1, d2, e2))
    # elastic reps (unsigned Narrowest in particular) with a built-in operand on either side
    for (d, n, e, b) in [(40, 'unsigned', -4, 'int'), (20, 'unsigned', 0, 'long'), (8, 'unsigned char', 0, 'signed char'), (64, 'unsigned', -10, 'long'), (33, 'unsigned', -1, 'short'),
                         (40, 'int', -4, 'unsigned'), (31, 'unsigned', 3, 'int')]:
        add(sc(el_(d, n), e), b, 'elastic%d_%s:%d|builtin_%s' % (d, short(n), e, short(b)))
        add(b, sc(el_(d, n), e), 'builtin_%s|elastic%d_%s:%d' % (short(b), d, short(n), e))
    if not quick:
        for lr, rr, el, er in [(S128, S128, -70, -64), (U128, S64, 60, 70), (S128, S32, -40, -10), (S64, S64, -70, -40), (U64, U64, 40, 70),
                               (S64, S128, 0, 0), (U128, U128, -5, -5)]:
            add(sc(lr, el), sc(rr, er), '%s:%d|%s:%d' % (short(lr), el, short(rr), er))
        wrappers = ['cnl::elastic_integer<20>', 'cnl::elastic_integer<40, unsigned>', 'cnl::rounding_integer<int, cnl::nearest_rounding_tag>',
                    'cnl::overflow_integer<int, cnl::saturated_overflow_tag>', 'cnl::wide_integer<200>', 'cnl::elastic_integer<70>']
        for wv in wrappers:
            for (el, er) in [(0, 0), (-3, 2), (5, -1), (-20, -20)]:
                add(sc(wv, el), sc(wv, er), '%s:%d|same:%d' % (short(wv), el, er))
        for lr, rr, el, er in [(S64, S64, 0, -20), (S64, S32, 0, -6), (U64, U64, -3, -12)]:
            add(sc(lr, el, 10), sc(rr, er, 10), 'r10|%s:%d|%s:%d' % (short(lr), el, short(rr), er))
    cases = 20000 if quick else 150000
    units = [Unit('C01-gxx-%d' % i, 'gxx', 'props/C01.h', part, rc_cases=cases, enum_max=2 ** 19, chunk=10)
             for i, part in enumerate(split(regs, 16))]
    cl = [r for r in regs if ('int:' in r and 'short' not in r) or 'r10' in r][:40]
    units.append(Unit('C01-clang', 'clang', 'props/C01.h', cl, rc_cases=cases, enum_max=2 ** 19, chunk=10))
    # every exponent distance for + - * (alignment shifts of every size), both orders of (wider, narrower) rep
    ESI = 'cnl::elastic_scaled_integer'
    pE = 'cnl::power<E>'
    sweeps = [
        ('Sw_s32_s32', 'c01::Arith<%s, cnl::scaled_integer<int, %s>>' % (sc(S32, 0), pE), 'sweep|int:0|int:E', -30, 30),
        ('Sw_s64_s16', 'c01::Arith<%s, cnl::scaled_integer<short, %s>>' % (sc(S64, 0), pE), 'sweep|long:0|short:E', -62, 30),
        ('Sw_u8_u64', 'c01::Arith<cnl::scaled_integer<unsigned char, %s>, %s>' % (pE, sc(U64, 0)), 'sweep|unsigned_char:E|unsigned_long:0', -63, 30),
        ('Sw_e30_e30', 'c01::Arith<%s<30, cnl::power<0>>, %s<30, %s>>' % (ESI, ESI, pE), 'sweep|elastic30:0|elastic30:E', -64, 64),
        ('Sw_e20u_e50', 'c01::Arith<%s<20, %s, unsigned>, %s<50, cnl::power<0>>>' % (ESI, pE, ESI), 'sweep|elastic20u:E|elastic50:0', -50, 50),
    ]
    units += sweep_units('C01', 'props/C01.h', sweeps, cases * 2, nunits=8, keep=(lambda i, r: i % 2 == 0) if quick else None)
    return dict(units=units, rule=RULE, assumptions=[
        'ranges of wrapper reps are taken from their std::numeric_limits (checked on their own by C05/C10)'])

"""C04 — conversions (DESIGN 5, C04)."""
from .common import *
from .C01 import sc, short

RULE = ('cases: source values for (source type, destination type) pairs: scaled->scaled (rep pairs x exponent pairs incl. '
        'widening+finer, narrowing+coarser), int->scaled, scaled->int, float/double/long double -> scaled/int, scaled/int -> '
        'float/double/long double, radix 2 (radix 10 for integer<->integer); source magnitudes are fitted to the destination '
        'range by construction; all values of 8/16-bit source reps enumerated. oracle (GMP/MPFR): exact value when the '
        'destination can represent it, else trunc toward zero at the destination resolution; to floating point the correctly '
        'rounded nearest value (MPFR) and the round trip T->F->T when F has at least as many digits; from_rep/to_rep and '
        'wrap/unwrap inverse over nested wrappers. non-trivial: digits are lost or the rep width changes or int/float is '
        'crossed; distinct by (site, source).')

EXP_PAIRS = [(0, 0), (-3, 2), (5, -1), (-7, -7), (-8, -16), (-16, -8), (0, -20), (-20, 0), (3, 10), (10, 3), (-31, -1), (-40, -70), (20, 60)]
FLOATS = [('float', 'f32'), ('double', 'f64'), ('long double', 'f80')]


def plan(tier, seed):
    quick = tier == 'quick'
    regs = []
    reps = UPTO64
    for i, s in enumerate(reps):
        for j, dd in enumerate(reps):
            for k, (se, de) in enumerate(EXP_PAIRS):
                if quick and (i * 3 + j * 5 + k) % 5:
                    continue
                # a right shift by >= digits of the promoted source is ill-formed in CNL (power_value static_assert)
                pd = max(32, bits(s)) - (1 if signed(s) else 0)
                if de - se >= pd:
                    continue
                route = (i + j + k) % 2
                regs.append('c04::I2I<%s, %s, %d>::reg("%s:%d|%s:%d")' % (sc(s, se), sc(dd, de), route, short(s), se, short(dd), de))
    for s, dd, se, de in [(S32, S64, -2, -6), (S64, S32, -6, -2), (S16, S32, 0, -3), (U32, U64, -4, -4), (S64, S64, 3, -5), (U8, S32, 2, 0)]:
        regs.append('c04::I2I<%s, %s, 0>::reg("r10|%s:%d|%s:%d")' % (sc(s, se, 10), sc(dd, de, 10), short(s), se, short(dd), de))
    # radix 10 with 64-bit reps and gaps of 10..18 decimal digits (the factor 10^gap exceeds 32 bits), and built-in <-> radix 10
    for s, dd, se, de in [(S64, S64, 0, -12), (S64, S64, -12, 0), (S64, S32, -15, -2), (U64, U64, -18, 0), (S64, S64, -3, -17), (S32, S64, 0, -14), (S64, S64, 5, -8)]:
        regs.append('c04::I2I<%s, %s, 0>::reg("r10|%s:%d|%s:%d")' % (sc(s, se, 10), sc(dd, de, 10), short(s), se, short(dd), de))
    for b, r, e in [(S64, S64, -12), (S32, S64, -15), (U64, U64, -10), (S64, S64, 3), (S8, S64, -16)]:
        regs.append('c04::I2I<%s, %s, 0>::reg("r10|builtin_%s|%s:%d")' % (b, sc(r, e, 10), short(b), short(r), e))
        regs.append('c04::I2I<%s, %s, 0>::reg("r10|%s:%d|builtin_%s")' % (sc(r, e, 10), b, short(r), e, short(b)))
    # cross-radix conversions, every sign combination of the two exponents
    k = 0
    for s, dd in [(S32, S32), (S64, S32), (S16, S32), (U32, U64), (S8, S16), (S32, S64)]:
        for (sr, se, dr, de) in [(10, 3, 2, 4), (2, 4, 10, 1), (10, -2, 2, -8), (2, -8, 10, -2), (10, 2, 2, -3), (2, 3, 10, -2), (10, -3, 2, 2), (2, -5, 10, 1),
                                 (3, 2, 10, 1), (10, 1, 3, -2), (3, -3, 2, -6), (2, 6, 3, 3)]:
            k += 1
            if quick and k % 2:
                continue
            regs.append('c04::I2IX<%s, %s, %d>::reg("r%d|%s:%d|r%d|%s:%d")' % (sc(s, se, sr), sc(dd, de, dr), k % 4 // 2, sr, short(s), se, dr, short(dd), de))
    # built-in integer <-> scaled
    for b in (S8, U8, S32, U32, S64, U64):
        for r, e in ((S32, -8), (U16, 3), (S64, -20), (U64, -1), (S8, -4)):
            regs.append('c04::I2I<%s, %s, 0>::reg("builtin_%s|%s:%d")' % (b, sc(r, e), short(b), short(r), e))
            regs.append('c04::I2I<%s, %s, 0>::reg("%s:%d|builtin_%s")' % (sc(r, e), b, short(r), e, short(b)))
    # floating point
    for f, fl in FLOATS:
        for r, e in ((S8, -4), (U8, -8), (S16, -8), (S32, -16), (U32, -32), (S32, 4), (S64, -32), (U64, -10), (S64, -70), (S32, 70), (S16, -30)):
            regs.append('c04::F2I<%s, %s>::reg("%s|%s:%d")' % (f, sc(r, e), fl, short(r), e))
            regs.append('c04::I2F<%s, %s>::reg("%s:%d|%s")' % (sc(r, e), f, short(r), e, fl))
    # floating point <-> scaled_integer over elastic_integer reps (top halves of unsigned ranges, storage-word boundaries)
    for f, fl in FLOATS:
        for d, n, e in [(64, 'unsigned', -4), (64, 'unsigned', 0), (63, 'int', -10), (32, 'unsigned', -8), (31, 'int', 0), (20, 'int', -12), (40, 'unsigned', 6), (100, 'int', -50)]:
            t = 'cnl::elastic_scaled_integer<%d, cnl::power<%d>, %s>' % (d, e, n)
            regs.append('c04::F2I<%s, %s>::reg("%s|elastic%d_%s:%d")' % (f, t, fl, d, short(n), e))
            regs.append('c04::I2F<%s, %s>::reg("elastic%d_%s:%d|%s")' % (t, f, d, short(n), e, fl))
    # inverses over nested wrappers
    for t, tl in [(sc(S32, -8), 'scaled_int'), ('cnl::elastic_integer<20>', 'elastic20'), ('cnl::overflow_integer<int, cnl::saturated_overflow_tag>', 'overflow_sat'),
                  ('cnl::rounding_integer<long, cnl::nearest_rounding_tag>', 'rounding_long'), ('cnl::wide_integer<200>', 'wide200'),
                  ('cnl::elastic_scaled_integer<24, cnl::power<-10>>', 'esi24'), ('cnl::static_number<20, -10>', 'static_number20'),
                  ('cnl::static_integer<40>', 'static_integer40'),
                  ('cnl::scaled_integer<cnl::rounding_integer<cnl::overflow_integer<cnl::elastic_integer<12>, cnl::saturated_overflow_tag>, cnl::nearest_rounding_tag>, cnl::power<-4>>', 'nested4')]:
        regs.append('c04::Inverse<%s>::reg("%s")' % (t, tl))
    cases = 20000 if quick else 150000
    units = [Unit('C04-gxx-%d' % i, 'gxx', 'props/C04.h', part, rc_cases=cases, enum_max=2 ** 16, chunk=10)
             for i, part in enumerate(split(regs, 16))]
    # sweeps over every exponent / shift distance (one site per dozen exponents): conversions whose scale factor is 2^k for every k,
    # in particular k at and around word boundaries (31, 32, 63, 64)
    ESI = 'cnl::elastic_scaled_integer'
    sweeps = [  # (alias name, template body with E, label, lo, hi)
        ('F2I_f64_s64', 'c04::F2I<double, %s>' % sc(S64, 0).replace('<0>', '<E>'), 'f2i|sweep|f64|long', -70, 70),
        ('F2I_f32_s32', 'c04::F2I<float, %s>' % sc(S32, 0).replace('<0>', '<E>'), 'f2i|sweep|f32|int', -70, 70),
        ('F2I_f80_u64', 'c04::F2I<long double, %s>' % sc(U64, 0).replace('<0>', '<E>'), 'f2i|sweep|f80|unsigned_long', -70, 70),
        ('I2F_s64_f64', 'c04::I2F<%s, double>' % sc(S64, 0).replace('<0>', '<E>'), 'i2f|sweep|long|f64', -70, 70),
        ('I2F_s32_f32', 'c04::I2F<%s, float>' % sc(S32, 0).replace('<0>', '<E>'), 'i2f|sweep|int|f32', -70, 70),
        ('I2F_u64_f80', 'c04::I2F<%s, long double>' % sc(U64, 0).replace('<0>', '<E>'), 'i2f|sweep|unsigned_long|f80', -70, 70),
        ('I2I_s64_s64', 'c04::I2I<%s, %s, 0>' % (sc(S64, 0).replace('<0>', '<E>'), sc(S64, 0)), 'i2i|sweep|long:E|long:0', -62, 62),
        ('I2I_s32_s64', 'c04::I2I<%s, %s, 1>' % (sc(S32, 0).replace('<0>', '<E>'), sc(S64, 0)), 'i2i|sweep|int:E|long:0', -30, 29),
        ('I2I_u64_u32', 'c04::I2I<%s, %s, 0>' % (sc(U64, 0).replace('<0>', '<E>'), sc(U32, 0)), 'i2i|sweep|unsigned_long:E|unsigned:0', -63, 30),
        ('I2I_e62_e62', 'c04::I2I<%s<62, cnl::power<E>>, %s<62, cnl::power<0>>, 0>' % (ESI, ESI), 'i2i|sweep|elastic62:E|elastic62:0', -61, 61),
        ('I2I_e48_e17', 'c04::I2I<%s<48, cnl::power<E>>, %s<17, cnl::power<0>>, 1>' % (ESI, ESI), 'i2i|sweep|elastic48:E|elastic17:0', -47, 40),
        ('I2I_eu64_eu32', 'c04::I2I<%s<64, cnl::power<E>, unsigned>, %s<32, cnl::power<0>, unsigned>, 0>' % (ESI, ESI), 'i2i|sweep|elastic64u:E|elastic32u:0', -63, 30),
        ('I2I_e40_int', 'c04::I2I<%s<40, cnl::power<E>>, long, 0>' % ESI, 'i2i|sweep|elastic40:E|builtin_long', -39, 20),
    ]
    step = 12
    prelude = ''.join('template<int E> using %s = %s;\n' % (n, body) for n, body, _, _, _ in sweeps)
    sregs = []
    for n, body, label, lo, hi in sweeps:
        for a in range(lo, hi + 1, step):
            cnt = min(step, hi + 1 - a)
            tail = ('|assign' if body.rstrip('>').rstrip().endswith(', 1') else '|cast') if 'I2I' in n else ''
            sregs.append('vf::Sweep<%s, %d, %d>::reg("C04|%s|%dto%d%s")' % (n, a, cnt, label, a, a + cnt - 1, tail))
    if quick:
        sregs = [r for r in sregs if not (('f2i' in r or 'i2f' in r) and ('f32' in r or 'f80' in r) and sregs.index(r) % 2)]
    units += [Unit('C04-sweep-%d' % i, 'gxx', 'props/C04.h', part, rc_cases=cases * 3, enum_max=0, chunk=4, prelude=prelude)
              for i, part in enumerate(split(sregs, 14))]
    cl = [r for r in regs if 'F2I' in r or 'I2F' in r][:30] + [r for r in regs if 'I2I' in r][:20]
    units.append(Unit('C04-clang', 'clang', 'props/C04.h', cl, rc_cases=cases, enum_max=2 ** 16, chunk=10))
    p = dict(units=units, rule=RULE, assumptions=['MPFR as the reference for correct rounding to float/double/long double'])
    if not quick:  # coverage-guided campaign over a slice of the same sites (thorough tier only)
        fz = [r for r in regs if 'F2I' in r][::4][:8] + [r for r in regs if 'I2F' in r][::4][:8] + [r for r in regs if 'I2IX' in r][:8] + [r for r in regs if 'I2I<' in r][::40][:10]
        p = with_fuzz(p, 'C04', 'props/C04.h', fz, tier, 0, 1500000, max_len=200, chunk=6)
    return p

"""C11 — static_integer / static_number never silently wrong (DESIGN 5, C11). Generated expression chains are the inputs."""
import random
from .common import *

RULE = ('cases: generated programs (chains): typed expression DAGs of depth <= 4 over static_number<D, E, RoundingTag, OverflowTag, '
        'Narrowest> / static_integer leaves (D in 1..100, E in -40..40, four rounding tags, saturated / throwing / trapping overflow '
        'tags, narrowest int8/int16/int; 64/128-bit and multi-word storage arise from the digit counts) using + - * / % unary -, the six '
        'comparisons (both operand orders), << by a run-time int, ++ / -- (both forms), and narrowing construction / assignment back to a leaf type; chains are drawn from VERIF_SEED, leaf values from the declared range by '
        'rapidcheck (extremes included). oracle: node by node in GMP rationals: exact value from exact children; for / the quotient '
        'of the reps rounded by the chain\'s rounding mode; for a narrowing construction the value rounded by the mode at the '
        'destination resolution; at each node the CNL value must equal it, or the overflow signal of the chain\'s tag must be '
        'observed exactly where the exact value leaves the declared digits (saturated: the bound on that side; throwing: '
        'std::overflow_error; trapping: abort through hook H2) and evaluation stops there. non-trivial: a chain evaluated through >= 2 '
        'operators without a signal, or an overflow handled; distinct by (chain, leaf values).')

ROUND = [('cnl::native_rounding_tag', 'R_NATIVE'), ('cnl::neg_inf_rounding_tag', 'R_NEG_INF'), ('cnl::nearest_rounding_tag', 'R_NEAREST'),
         ('cnl::tie_to_pos_inf_rounding_tag', 'R_TIE_POS')]
OVF = [('cnl::saturated_overflow_tag', 'O_SATURATED'), ('cnl::_impl::throwing_overflow_tag', 'O_THROWING'), ('cnl::trapping_overflow_tag', 'O_TRAPPING')]
EXCLUDED = {}
NARROW = ['signed char', 'int', 'short']  # static_number arithmetic with Narrowest = long does not compile on the pinned tree


def gen_chain(rng, idx):
    rt, rc = rng.choice(ROUND)
    ot, oc = rng.choice(OVF)
    nar = rng.choice(NARROW)

    def leaf_type():
        d = rng.choice([1, 2, 7, 8, 12, 15, 16, 24, 31, 32, 40, 63, 64, 100]) if rng.random() < 0.5 else rng.randint(1, 40)
        e = rng.randint(-40, 40) if rng.random() < 0.3 else rng.randint(-12, 6)
        if rng.random() < 0.2:
            e = 0
        return d, e

    use_static_integer = rng.random() < 0.35  # exponent-0 types of this chain are spelled static_integer<...> (a different nesting)

    def tname(d, e, dest=False):
        # (a static_integer cannot be constructed from a static_number under a non-native rounding tag on the pinned tree: the
        # conversion operator is missing, the program does not compile; such destinations are spelled static_number<D, 0>)
        if e == 0 and use_static_integer and not (dest and rc != 'R_NATIVE'):
            return 'cnl::static_integer<%d, %s, %s, %s>' % (d, rt, ot, nar)
        if e == 0 and use_static_integer and dest:
            EXCLUDED['static_integer destination under a non-native rounding tag (does not compile)'] = EXCLUDED.get('static_integer destination under a non-native rounding tag (does not compile)', 0) + 1
        return 'cnl::static_number<%d, %d, %s, %s, %s>' % (d, e, rt, ot, nar)

    lines, specs = [], []
    types = {}  # node -> (digits, exponent) estimate used only to keep generated programs reasonable
    nleaf = rng.randint(2, 3)
    for i in range(nleaf):
        d, e = leaf_type()
        lines.append('auto x%d = c11::leaf<%s>(in, %d); tr.rec(x%d);' % (i, tname(d, e), i, i))
        specs.append('{c11::LEAF, -1, -1, %d, %d}' % (d, e))
        types[i] = (d, e)
    n = nleaf
    nops = rng.randint(2, 4)
    for k in range(nops):
        kind = rng.choice(['ADD', 'SUB', 'MUL', 'DIV', 'NEG', 'CONVERT', 'CONVERT', 'MUL', 'ADD', 'MOD', 'CMP', 'ASSIGN', 'SHL', 'INC', 'DEC'])
        values = [i for i in range(n) if types[i] is not None]  # comparison nodes are not operands
        a = rng.choice(values)
        b = rng.choice(values)
        da, ea = types[a]
        db, eb = types[b]
        if kind in ('ADD', 'SUB'):
            e = min(ea, eb)
            d = max(da + ea, db + eb) - e + 1
            if d > 260:
                kind = 'CONVERT'
            else:
                op = '+' if kind == 'ADD' else '-'
                lines.append('auto x%d = x%d %s x%d; tr.rec(x%d);' % (n, a, op, b, n))
                specs.append('{c11::%s, %d, %d, 0, 0}' % (kind, a, b))
                types[n] = (d, e)
        if kind == 'MUL':
            if da + db > 260:
                kind = 'CONVERT'
            else:
                lines.append('auto x%d = x%d * x%d; tr.rec(x%d);' % (n, a, b, n))
                specs.append('{c11::MUL, %d, %d, 0, 0}' % (a, b))
                types[n] = (da + db, ea + eb)
        if kind == 'DIV':
            lines.append('auto x%d = x%d / x%d; tr.rec(x%d);' % (n, a, b, n))
            specs.append('{c11::DIV, %d, %d, 0, 0}' % (a, b))
            types[n] = (da, ea - eb)
        if kind in ('INC', 'DEC') and not (ea <= 0 and da > -ea):
            kind = 'SHL'  # one is not a value of the type: no ++/--
        if kind == 'SHL':
            k = rng.choice([1, 1, 2, 3])
            lines.append('auto x%d = x%d << %d; tr.rec(x%d);' % (n, a, k, n))
            specs.append('{c11::SHL, %d, %d, 0, 0}' % (a, k))
            types[n] = (da, ea)
        if kind in ('INC', 'DEC'):
            post = rng.randrange(2)
            op = '++' if kind == 'INC' else '--'
            lines.append('auto x%d = x%d; %s; tr.rec(x%d);' % (n, a, ('x%d%s' % (n, op)) if post else ('%sx%d' % (op, n)), n))
            specs.append('{c11::%s, %d, %d, 0, 0}' % (kind, a, post))
            types[n] = (da, ea)
        if kind == 'MOD':
            lines.append('auto x%d = x%d %% x%d; tr.rec(x%d);' % (n, a, b, n))
            specs.append('{c11::MOD, %d, %d, 0, 0}' % (a, b))
            types[n] = (min(da, db), ea)
        if kind == 'CMP':
            lines.append('tr.rec_cmp(x%d, x%d);' % (a, b))
            specs.append('{c11::CMP, %d, %d, 0, 0}' % (a, b))
            types[n] = None
        if kind == 'NEG':
            lines.append('auto x%d = -x%d; tr.rec(x%d);' % (n, a, n))
            specs.append('{c11::NEG, %d, -1, 0, 0}' % a)
            types[n] = (da, ea)
        if kind in ('CONVERT', 'ASSIGN'):
            # destination: around the source's magnitude, sometimes narrower (overflow), sometimes coarser (rounding)
            top = da + ea
            e = ea + rng.choice([0, 0, 1, 2, 3, 5, -1, -3])
            d = max(1, min(250, top - e + rng.choice([0, 0, 1, -1, -2, 2, 4])))
            if abs(e - ea) > 30:
                e = ea
            if e - ea >= da:
                # known finding C11-conversion-shifts-out-all-digits: excluded by construction (a fixed chain carries the witness)
                EXCLUDED['C11-conversion-shifts-out-all-digits'] = EXCLUDED.get('C11-conversion-shifts-out-all-digits', 0) + 1
                e = ea + max(0, da - 1)
                d = max(1, min(250, top - e + 1))
            dt = tname(d, e, dest=True)
            if kind == 'ASSIGN':
                lines.append('%s x%d{}; x%d = x%d; tr.rec(x%d);' % (dt, n, n, a, n))
            else:
                lines.append('auto x%d = %s{x%d}; tr.rec(x%d);' % (n, dt, a, n))
            specs.append('{c11::%s, %d, %d, %d, %d}' % (kind, a, -2 if 'static_integer' in dt else -1, d, e))
            types[n] = (d, e)
        n += 1
    body = ' '.join(lines)
    import hashlib
    # the name carries a hash of the program: replay files, known-finding witnesses and the in-region corpus name a chain, not a position
    name = 'C11|chain|%04d-%s|%s|%s|%s' % (idx, hashlib.sha1((body + '|'.join(specs)).encode()).hexdigest()[:6], rc[2:].lower(), oc[2:].lower(), nar.replace(' ', '_'))
    nd = {'signed char': 7, 'short': 15, 'int': 31}[nar]
    return 'c11::add_chain("%s", c11::%s, c11::%s, %d, {%s}, [](c11::Inputs const& in, c11::Trace& tr) { %s })' % (name, rc, oc, nd, ', '.join(specs), body)


def _sn(d, e, r, o, n):
    return 'cnl::static_number<%d, %d, %s, %s, %s>' % (d, e, r, o, n)


# chains that are part of every program (independent of VERIF_SEED): they carry the witnesses of the listed known findings
_N, _S, _T = 'cnl::nearest_rounding_tag', 'cnl::saturated_overflow_tag', 'cnl::neg_inf_rounding_tag'
FIXED = [
    'c11::add_chain("C11|chain|fixed-bias|nearest|saturated|int", c11::R_NEAREST, c11::O_SATURATED, 31, {{c11::LEAF, -1, -1, 16, 0}, {c11::NEG, 0, -1, 0, 0}, {c11::CONVERT, 1, -1, 16, 1}}, '
    '[](c11::Inputs const& in, c11::Trace& tr) { auto x0 = c11::leaf<%s>(in, 0); tr.rec(x0); auto x1 = -x0; tr.rec(x1); auto x2 = %s{x1}; tr.rec(x2); })' % (_sn(16, 0, _N, _S, 'int'), _sn(16, 1, _N, _S, 'int')),
    'c11::add_chain("C11|chain|fixed-floor|neg_inf|saturated|signed_char", c11::R_NEG_INF, c11::O_SATURATED, 7, {{c11::LEAF, -1, -1, 12, -7}, {c11::CONVERT, 0, -1, 13, -4}, {c11::ADD, 0, 1, 0, 0}}, '
    '[](c11::Inputs const& in, c11::Trace& tr) { auto x0 = c11::leaf<%s>(in, 0); tr.rec(x0); auto x1 = %s{x0}; tr.rec(x1); auto x2 = x0 + x1; tr.rec(x2); })' % (_sn(12, -7, _T, _S, 'signed char'), _sn(13, -4, _T, _S, 'signed char')),
    'c11::add_chain("C11|chain|fixed-shiftout|neg_inf|saturated|int", c11::R_NEG_INF, c11::O_SATURATED, 31, {{c11::LEAF, -1, -1, 1, -6}, {c11::CONVERT, 0, -1, 1, -1}}, '
    '[](c11::Inputs const& in, c11::Trace& tr) { auto x0 = c11::leaf<%s>(in, 0); tr.rec(x0); auto x1 = %s{x0}; tr.rec(x1); })' % (_sn(1, -6, _T, _S, 'int'), _sn(1, -1, _T, _S, 'int')),
    'c11::add_chain("C11|chain|fixed-multiword-128|nearest|saturated|int", c11::R_NEAREST, c11::O_SATURATED, 31, {{c11::LEAF, -1, -1, 64, 0}, {c11::LEAF, -1, -1, 64, -3}, {c11::MUL, 0, 1, 0, 0}, {c11::LEAF, -1, -1, 32, 0}, {c11::MUL, 2, 3, 0, 0}, {c11::SUB, 4, 2, 0, 0}, {c11::CONVERT, 2, -1, 128, -3}}, '
    '[](c11::Inputs const& in, c11::Trace& tr) { auto x0 = c11::leaf<%s>(in, 0); tr.rec(x0); auto x1 = c11::leaf<%s>(in, 1); tr.rec(x1); auto x2 = x0 * x1; tr.rec(x2); auto x3 = c11::leaf<%s>(in, 2); tr.rec(x3); auto x4 = x2 * x3; tr.rec(x4); auto x5 = x4 - x2; tr.rec(x5); auto x6 = %s{x2}; tr.rec(x6); })'
    % (_sn(64, 0, _N, _S, 'int'), _sn(64, -3, _N, _S, 'int'), _sn(32, 0, _N, _S, 'int'), _sn(128, -3, _N, _S, 'int')),
    'c11::add_chain("C11|chain|fixed-multiword-136|neg_inf|throwing|signed_char", c11::R_NEG_INF, c11::O_THROWING, 7, {{c11::LEAF, -1, -1, 72, 0}, {c11::LEAF, -1, -1, 64, 2}, {c11::MUL, 0, 1, 0, 0}, {c11::ADD, 2, 0, 0, 0}, {c11::NEG, 2, -1, 0, 0}}, '
    '[](c11::Inputs const& in, c11::Trace& tr) { auto x0 = c11::leaf<%s>(in, 0); tr.rec(x0); auto x1 = c11::leaf<%s>(in, 1); tr.rec(x1); auto x2 = x0 * x1; tr.rec(x2); auto x3 = x2 + x0; tr.rec(x3); auto x4 = -x2; tr.rec(x4); })'
    % (_sn(72, 0, _T, 'cnl::_impl::throwing_overflow_tag', 'signed char'), _sn(64, 2, _T, 'cnl::_impl::throwing_overflow_tag', 'signed char')),
    'c11::add_chain("C11|chain|fixed-mulpred|tie_pos|trapping|short", c11::R_TIE_POS, c11::O_TRAPPING, 15, {{c11::LEAF, -1, -1, 31, -8}, {c11::LEAF, -1, -1, 1, -8}, {c11::MUL, 1, 0, 0, 0}}, '
    '[](c11::Inputs const& in, c11::Trace& tr) { auto x0 = c11::leaf<%s>(in, 0); tr.rec(x0); auto x1 = c11::leaf<%s>(in, 1); tr.rec(x1); auto x2 = x1 * x0; tr.rec(x2); })'
    % (_sn(31, -8, 'cnl::tie_to_pos_inf_rounding_tag', 'cnl::trapping_overflow_tag', 'short'), _sn(1, -8, 'cnl::tie_to_pos_inf_rounding_tag', 'cnl::trapping_overflow_tag', 'short')),
    'c11::add_chain("C11|chain|fixed-divbias|nearest|saturated|int", c11::R_NEAREST, c11::O_SATURATED, 31, {{c11::LEAF, -1, -1, 31, 0}, {c11::LEAF, -1, -1, 8, 0}, {c11::DIV, 0, 1, 0, 0}}, '
    '[](c11::Inputs const& in, c11::Trace& tr) { auto x0 = c11::leaf<%s>(in, 0); tr.rec(x0); auto x1 = c11::leaf<%s>(in, 1); tr.rec(x1); auto x2 = x0 / x1; tr.rec(x2); })' % (_sn(31, 0, _N, _S, 'int'), _sn(8, 0, _N, _S, 'int')),
]


def _incdec_chain(name, d, e, r, rc, o, oc, nar, nd):
    t = _sn(d, e, r, o, nar) if e != 0 else 'cnl::static_integer<%d, %s, %s, %s>' % (d, r, o, nar)
    return ('c11::add_chain("C11|chain|%s", c11::%s, c11::%s, %d, {{c11::LEAF, -1, -1, %d, %d}, {c11::INC, 0, 0, 0, 0}, {c11::DEC, 0, 1, 0, 0}, {c11::INC, 1, 1, 0, 0}, {c11::DEC, 2, 0, 0, 0}, {c11::SHL, 0, 1, 0, 0}}, '
            '[](c11::Inputs const& in, c11::Trace& tr) { auto x0 = c11::leaf<%s>(in, 0); tr.rec(x0); auto x1 = x0; ++x1; tr.rec(x1); auto x2 = x0; x2--; tr.rec(x2); auto x3 = x1; x3++; tr.rec(x3); '
            'auto x4 = x2; --x4; tr.rec(x4); auto x5 = x0 << 1; tr.rec(x5); })' % (name, rc, oc, nd, d, e, t))


# ++ / -- / << at the edge of the declared range, every overflow tag (part of every program)
FIXED += [
    _incdec_chain('fixed-incdec-7|nearest|saturated|int', 7, 0, _N, 'R_NEAREST', _S, 'O_SATURATED', 'int', 31),
    _incdec_chain('fixed-incdec-12|native|throwing|signed_char', 12, -4, 'cnl::native_rounding_tag', 'R_NATIVE', 'cnl::_impl::throwing_overflow_tag', 'O_THROWING', 'signed char', 7),
    _incdec_chain('fixed-incdec-31|neg_inf|trapping|int', 31, 0, _T, 'R_NEG_INF', 'cnl::trapping_overflow_tag', 'O_TRAPPING', 'int', 31),
    _incdec_chain('fixed-incdec-40|tie_pos|saturated|short', 40, -8, 'cnl::tie_to_pos_inf_rounding_tag', 'R_TIE_POS', _S, 'O_SATURATED', 'short', 15),
]


_NAT, _THR = 'cnl::native_rounding_tag', 'cnl::_impl::throwing_overflow_tag'
FIXED += [
    'c11::add_chain("C11|chain|fixed-static-integer-from-coarser|native|throwing|int", c11::R_NATIVE, c11::O_THROWING, 31, {{c11::LEAF, -1, -1, 9, 3}, {c11::CONVERT, 0, -2, 11, 0}}, '
    '[](c11::Inputs const& in, c11::Trace& tr) { auto x0 = c11::leaf<%s>(in, 0); tr.rec(x0); auto x1 = cnl::static_integer<11, %s, %s, int>{x0}; tr.rec(x1); })' % (_sn(9, 3, _NAT, _THR, 'int'), _NAT, _THR),
]


def plan(tier, seed):
    quick = tier == 'quick'
    rng = random.Random(seed * 104729 + 11)
    nchains = 160 if quick else 2000
    EXCLUDED.clear()
    regs = FIXED + [gen_chain(rng, i) for i in range(nchains)]
    excl = dict(EXCLUDED)

    def extra(ctx):
        return [dict(name='emitter', cfg='gxx', evaluations=0, distinct_nontrivial=0,
                     excluded={k: dict(hits=v, example='conversion targets adjusted by the chain emitter') for k, v in excl.items()},
                     note='narrowing conversions that would shift out every digit of the source are not emitted in random chains (listed known finding; the fixed chain fixed-shiftout carries the witness)')]
    cases = 20000 if quick else 50000
    units = [Unit('C11-gxx-%d' % i, 'gxx', 'props/C11.h', part, rc_cases=cases, chunk=4)
             for i, part in enumerate(split(regs, 16 if quick else 64))]
    return dict(units=units, rule=RULE, extra=extra, assumptions=[
        'chains are regenerated from VERIF_SEED; a chain that does not compile on the pinned tree is reported as a violation unless a listed finding covers it',
        'the trapping tag is observed through hook H2'])

"""C05 — elastic_integer never overflows (DESIGN 5, C05)."""
from .common import *
from .C01 import short

RULE = ('cases: (op, a, b) with op in {+,-,*,/,%,unary -, six comparisons, << and >> by a constant} over pairs of '
        'elastic_integer<D, Narrowest> (digits 1..126 pairwise, both signednesses, narrowest in int8/int/int64 and unsigned '
        'twins and wide_integer<31>) and elastic_scaled_integer; operands drawn from the DECLARED range [-(2^D-1), 2^D-1] / '
        '[0, 2^D-1] with directed extremes, +-1 and divisors just above what the dividend\'s rep holds; all operand pairs of '
        'sites with at most 16 value digits in total enumerated. oracle (GMP): result == exact result (/ truncating, % sign of '
        'dividend, >> floor), lies in the range numeric_limits reports for digits_v<Result>, and numeric_limits == 2^D-1 / '
        'symmetric. non-trivial: operand digit counts differ or an operand at an extreme; distinct by (site, op, operands).')

DIG = [1, 2, 7, 8, 9, 15, 16, 17, 31, 32, 33, 40, 62, 63, 64, 100, 126]
NARROW = ['int', 'unsigned', 'signed char', 'unsigned char', 'long', 'unsigned long']


def el(d, n):
    return 'cnl::elastic_integer<%d, %s>' % (d, n)


def plan(tier, seed):
    quick = tier == 'quick'
    regs = []
    k = 0
    for i, ld in enumerate(DIG):
        for j, rd in enumerate(DIG):
            for (ln, rn) in [('int', 'int'), ('unsigned', 'unsigned'), ('int', 'unsigned'), ('unsigned', 'int'), ('signed char', 'long'),
                             ('unsigned long', 'signed char')]:
                k += 1
                if quick and k % 11:
                    continue
                if not quick and k % 2 and (ln, rn) not in (('int', 'int'), ('int', 'unsigned')):
                    continue
                if max(ld, rd) + 1 > 127:
                    continue
                withmul = 'true' if ld + rd <= 127 else 'false'
                regs.append('c05::Bin<%s, %s, %s>::reg("%d_%s|%d_%s")' % (el(ld, ln), el(rd, rn), withmul, ld, short(ln), rd, short(rn)))
    # wide_integer storage
    for ld, rd in [(100, 100), (200, 40), (40, 200), (126, 126), (300, 300)]:
        regs.append('c05::Bin<%s, %s, true>::reg("%d_wide31|%d_wide31")' % (el(ld, 'cnl::wide_integer<31>'), el(rd, 'cnl::wide_integer<31>'), ld, rd))
    # results whose digit count is an exact multiple of the limb width of a signed multi-word storage type
    for ld, rd in [(64, 64), (80, 80), (96, 96), (127, 127), (128, 31), (64, 72)]:
        regs.append('c05::Bin<%s, %s, true>::reg("%d_wide31|%d_wide31")' % (el(ld, 'cnl::wide_integer<31>'), el(rd, 'cnl::wide_integer<31>'), ld, rd))
    regs.append('c05::Bin<%s, %s, true>::reg("64_wide7i8|72_wide7i8")' % (el(64, 'cnl::wide_integer<7, signed char>'), el(72, 'cnl::wide_integer<7, signed char>')))
    # 64-bit words: products of exactly four limbs (the unrolled multiply), and products large enough for the Karatsuba path (132 limbs)
    W63 = 'cnl::wide_integer<63, std::int64_t>'
    for ld, rd in [(100, 100), (127, 127), (50, 205), (205, 50), (64, 130)]:
        regs.append('c05::Bin<%s, %s, true>::reg("%d_wide63i64|%d_wide63i64")' % (el(ld, W63), el(rd, W63), ld, rd))
    regs.append('c05::Bin<%s, %s, true>::reg("2100_wide31|2100_wide31")' % (el(2100, 'cnl::wide_integer<31>'), el(2100, 'cnl::wide_integer<31>')))
    # elastic_scaled_integer pairs with different digit counts, exponents and signedness
    for (d1, e1, n1, d2, e2, n2) in [(20, -20, 'int', 20, 0, 'int'), (20, 0, 'int', 20, -20, 'int'), (16, -8, 'int', 16, -8, 'unsigned'), (31, -16, 'int', 8, 0, 'unsigned'),
                                     (40, -20, 'int', 10, 3, 'int'), (8, 0, 'unsigned', 63, -31, 'int'), (24, 4, 'int', 24, -4, 'unsigned'), (15, -30, 'signed char', 15, 10, 'int'),
                                     (60, -10, 'int', 60, -50, 'int'), (7, -3, 'unsigned char', 7, 2, 'signed char')]:
        regs.append('c05::Esi<cnl::elastic_scaled_integer<%d, cnl::power<%d>, %s>, cnl::elastic_scaled_integer<%d, cnl::power<%d>, %s>>::reg("%d_%s:%d|%d_%s:%d")'
                    % (d1, e1, n1, d2, e2, n2, d1, short(n1), e1, d2, short(n2), e2))
    # elastic_integer with a built-in operand on either side
    for d, n in [(5, 'unsigned'), (5, 'int'), (20, 'unsigned'), (31, 'int'), (32, 'unsigned'), (40, 'int'), (8, 'unsigned char'), (7, 'signed char'), (63, 'int'), (64, 'unsigned')]:
        for b in ('int', 'unsigned', 'signed char', 'long', 'unsigned short'):
            if quick and (d + len(b)) % 2:
                continue
            regs.append('c05::WithBuiltin<%s, %s>::reg("%d_%s|%s")' % (el(d, n), b, d, short(n), short(b)))
    for d in (1, 7, 8, 16, 31, 32, 40, 63, 100):
        for n in ('int', 'unsigned'):
            for sh in (1, 3, 8, 20):
                if d + sh > 126 or sh >= d:
                    continue
                regs.append('c05::Shift<%s, %d>::reg("%d_%s|%d")' % (el(d, n), sh, d, short(n), sh))
    cases = 20000 if quick else 120000
    units = [Unit('C05-gxx-%d' % i, 'gxx', 'props/C05.h', part, rc_cases=cases, enum_max=2 ** 22, chunk=8)
             for i, part in enumerate(split(regs, 16))]
    cl = [r for r in regs if 'Bin<' in r][:24]
    units.append(Unit('C05-clang', 'clang', 'props/C05.h', cl, rc_cases=cases, enum_max=2 ** 22, chunk=8))
    # every digit count against a fixed partner (results cross every storage-word boundary one digit at a time)
    W31 = 'cnl::wide_integer<31>'
    sweeps = [
        ('Sw_i_i31', 'c05::Bin<cnl::elastic_integer<E, int>, %s, true>' % el(31, 'int'), 'bin|sweep|E_int|31_int', 1, 96),
        ('Sw_u_i8', 'c05::Bin<cnl::elastic_integer<E, unsigned>, %s, true>' % el(8, 'int'), 'bin|sweep|E_unsigned|8_int', 1, 118),
        ('Sw_i64_i', 'c05::Bin<%s, cnl::elastic_integer<E, int>, false>' % el(64, 'int'), 'bin|sweep|64_int|E_int', 1, 126),
        ('Sw_sc_u', 'c05::Bin<cnl::elastic_integer<E, signed char>, cnl::elastic_integer<E, unsigned char>, true>', 'bin|sweep|E_signed_char|E_unsigned_char', 1, 63),
        # elastic_scaled_integer at every exponent distance (alignment for + - comparisons, down-scaling for += -=)
        ('Sw_esi_i', 'c05::Esi<cnl::elastic_scaled_integer<20, cnl::power<0>, int>, cnl::elastic_scaled_integer<40, cnl::power<E>, int>>', 'esi|sweep|20_int:0|40_int:E', -70, 20),
        ('Sw_esi_u', 'c05::Esi<cnl::elastic_scaled_integer<24, cnl::power<0>, unsigned>, cnl::elastic_scaled_integer<30, cnl::power<E>, unsigned>>', 'esi|sweep|24_unsigned:0|30_unsigned:E', -70, 20),
        ('Sw_esi_c', 'c05::Esi<cnl::elastic_scaled_integer<12, cnl::power<E>, signed char>, cnl::elastic_scaled_integer<50, cnl::power<0>, signed char>>', 'esi|sweep|12_signed_char:E|50_signed_char:0', -20, 66),
        ('Sw_w_w64', 'c05::Bin<cnl::elastic_integer<E, %s>, %s, true>' % (W31, el(64, W31)), 'bin|sweep|E_wide31|64_wide31', 60, 200),
    ]
    units += sweep_units('C05', 'props/C05.h', sweeps, cases * 2, nunits=12, keep=(lambda i, r: i % 2 == 0) if quick else None)
    return dict(units=units, rule=RULE, assumptions=['values enter elastic types through from_rep on a representation built outside CNL'])

"""C02 — / % quotient() (DESIGN 5, C02)."""
from .common import *
from .C01 import short
from .C01 import sc, short, EXPS

RULE = ('cases: dividend/divisor representations for pairs of scaled_integer instantiations (8..64-bit reps x 7 exponent pairs, '
        'radix 2 and 10) for / and %, and built-in integers, scaled_integer and elastic_scaled_integer pairs for quotient(); '
        'divisors non-zero; directed |b| = 1, b = +-2^k, a = k*b +- 1, the four corner values; 8-bit x 8-bit planes enumerated. '
        'oracle (GMP): exponents EL-ER and EL; rep(a/b) == trunc(rep a / rep b); (a/b)*b + a%b == a; remainder has the sign of a '
        'and |rep| < |rep b|; quotient(): |r| <= |q|, |q|-|r| < one unit of the result, same sign, no UB for any input. '
        'excluded as stated: min / -1 and operand pairs whose usual arithmetic conversions change a value. non-trivial: non-zero '
        'remainder, a negative operand, or EL != ER; distinct by (site, reps).')


def plan(tier, seed):
    quick = tier == 'quick'
    regs = []
    for lr in UPTO64:
        for rr in UPTO64:
            for k, (el, er) in enumerate(EXPS):
                if quick and (UPTO64.index(lr) + UPTO64.index(rr) + k) % 3:
                    continue
                regs.append('c02::DivMod<%s, %s>::reg("%s:%d|%s:%d")' % (sc(lr, el), sc(rr, er), short(lr), el, short(rr), er))
    for lr, rr, el, er in [(S32, S32, -2, 0), (S64, S32, 0, -3), (S16, U8, 1, -1), (U32, U64, -4, -4), (S64, S64, 3, 5)]:
        regs.append('c02::DivMod<%s, %s>::reg("r10|%s:%d|%s:%d")' % (sc(lr, el, 10), sc(rr, er, 10), short(lr), el, short(rr), er))
    # / and % over elastic_integer reps whose storage widths differ in either direction (and non-default Narrowest types)
    ESI = 'cnl::elastic_scaled_integer<%d, cnl::power<%d>, %s>'
    for (d1, e1, n1, d2, e2, n2) in [(31, 0, 'int', 40, 0, 'int'), (40, -8, 'int', 20, -3, 'int'), (7, -2, 'signed char', 15, 1, 'signed char'), (15, 0, 'signed char', 7, 0, 'signed char'),
                                     (20, -4, 'unsigned', 33, 0, 'unsigned'), (62, -20, 'int', 62, -10, 'int'), (63, 0, 'int', 31, -5, 'int'), (8, 0, 'unsigned char', 30, -6, 'int'),
                                     (31, -16, 'int', 64, 0, 'unsigned'), (100, -30, 'int', 40, 2, 'int')]:
        regs.append('c02::DivMod<%s, %s>::reg("elastic%d_%s:%d|elastic%d_%s:%d")' % (ESI % (d1, e1, n1), ESI % (d2, e2, n2), d1, short(n1), e1, d2, short(n2), e2))
    # quotient: built-in integers, scaled with built-in reps, elastic_scaled_integer
    qpairs = [(S8, S8), (U8, U8), (S8, U8), (S16, S16), (S32, S32), (U32, U32), (S32, U16), (S64, S64), (U64, U64), (S64, S32), (U16, S64), (U32, S32), (U64, S64), (U64, S8)]
    for l, r in qpairs:
        regs.append('c02::Quot<%s, %s>::reg("builtin_%s|builtin_%s")' % (l, r, short(l), short(r)))
    for l, r, el, er in [(S8, S8, -3, 2), (U8, S8, 0, -4), (S16, U16, -8, -8), (S32, S32, -16, -16), (S32, S16, 5, -3), (U32, S8, -31, 0),
                         (S64, S32, -20, 10), (S8, S64, 0, -40), (S32, S32, 0, 0)]:
        regs.append('c02::Quot<%s, %s>::reg("%s:%d|%s:%d")' % (sc(l, el), sc(r, er), short(l), el, short(r), er))
    for dl, el, dr, er in [(7, -3, 7, -2), (15, -8, 8, 0), (31, -16, 31, -16), (40, -20, 10, 2), (63, -31, 63, -31), (20, 5, 30, -30)]:
        regs.append('c02::Quot<cnl::elastic_scaled_integer<%d, cnl::power<%d>>, cnl::elastic_scaled_integer<%d, cnl::power<%d>>>::reg("elastic%d:%d|elastic%d:%d")'
                    % (dl, el, dr, er, dl, el, dr, er))
    cases = 30000 if quick else 200000
    units = [Unit('C02-gxx-%d' % i, 'gxx', 'props/C02.h', part, rc_cases=cases, enum_max=2 ** 17, chunk=10)
             for i, part in enumerate(split(regs, 15))]
    cl = [r for r in regs if 'Quot<' in r][:20] + [r for r in regs if 'int:' in r][:12]
    units.append(Unit('C02-clang', 'clang', 'props/C02.h', cl, rc_cases=cases, enum_max=2 ** 17, chunk=10))
    return dict(units=units, rule=RULE, assumptions=['ranges of elastic reps are taken from their std::numeric_limits'])

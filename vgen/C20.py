"""C20 — exp2 within one rep; constants within one unit (DESIGN 5, C20)."""
from .common import *
from .C01 import short

RULE = ('cases: exp2 inputs x for scaled_integer<Rep, power<E>> with Rep of 8/16 bits (every value) and 32 bits (2^20-point lattice, '
        'neighbours of integers, boundary/random values) for every exponent that leaves at least one integer bit; the 13 <numbers> '
        'constants for every (Rep, E) with 8..64-bit reps for which the constant is representable (one case per constant and '
        'instantiation: the instantiation is the input). oracle (MPFR, 256-320 bits): t = floor(2^x / 2^E); |rep(exp2(x)) - t| <= 1 '
        'whenever t and t+1 fit Rep, exact for integral x with a representable power; |rep - c / 2^E| < 1 for the constants. '
        'non-trivial: x is not an integer (exp2); every constant case; distinct by (site, x) / (site, constant).')


def sc(rep, e):
    return 'cnl::scaled_integer<%s, cnl::power<%d>>' % (rep, e)


def plan(tier, seed):
    quick = tier == 'quick'
    exp2, consts = [], []
    for rep in (S8, U8, S16, U16, S32, U32):
        digits = bits(rep) - (1 if signed(rep) else 0)
        for e in range(-(digits - 1), 1):
            if bits(rep) == 32 and quick and e % 4 != -1 % 4 and e not in (-30, -31, -16, 0):
                continue
            if bits(rep) == 16 and quick and e % 2:
                continue
            exp2.append('c20::Exp2<%s, %d>::reg("%s:%d")' % (rep, e, short(rep), e))
    for rep in UPTO64:
        digits = bits(rep) - (1 if signed(rep) else 0)
        for e in range(-digits, 1):
            idig = digits + e
            # thorough: every exponent of every rep ("for all (Rep, Exponent) instantiations"); quick: every exponent that leaves at
            # most 4 integer digits (where the constants stop fitting, one by one) and every third of the others
            if quick and idig > 4 and e % 3 and e != 0:
                continue
            consts.append('c20::Constants<%s, %d, %d>::reg("%s:%d")' % (rep, e, idig, short(rep), e))
    cases = 20000 if quick else 400000
    units = [Unit('C20-exp2-gxx-%d' % i, 'gxx', 'props/C20.h', part, rc_cases=cases, enum_max=2 ** 16 if quick else 2 ** 20, chunk=8)
             for i, part in enumerate(split(exp2, 10))]
    units += [Unit('C20-const-gxx-%d' % i, 'gxx', 'props/C20.h', part, rc_cases=0, enum_max=64, chunk=12)
              for i, part in enumerate(split(consts, 6 if quick else 16))]
    units.append(Unit('C20-clang', 'clang', 'props/C20.h', exp2[:6] + consts[:12], rc_cases=cases, enum_max=2 ** 16, chunk=9))
    return dict(units=units, rule=RULE, assumptions=['MPFR at 256-320 bits as the reference; a floor within 2^-200 of an integer would be misjudged (cannot occur for non-integral x of <= 32 bits)'])

"""C07 — checked arithmetic is total (DESIGN 5, C07): same sites as C06 in totality mode."""
from . import C06

RULE = ('cases: the C06 sites with operands ranging over ALL values: extremes, 0, -1, every shift count >= 0 (including >= width), '
        'float sources including NaN, +-inf and values adjacent to the integer limits; zero divisors and negative shift counts '
        'excluded as the statement says. oracle (invariant only): inside the guard no UBSan trap, no SIGFPE/SIGSEGV, no '
        '"CNL internal error"/unreachable, no failed CNL_ASSERT; the tag\'s own signal (std::overflow_error, or abort with an '
        'overflow message) is the only admissible non-returning outcome. Both detection paths on both compilers. non-trivial: '
        'an operand in the boundary class {0, -1, min, max} (float: non-finite or out of the destination range).')


def plan(tier, seed):
    from .common import with_fuzz
    p = C06.make_plan('C07', True, tier, RULE)
    # second driver (DESIGN C07): coverage-guided search over the short-circuit branches of the predicates, clang (portable path)
    regs = [r for u in p['units'] if u.cfg == 'clang' for r in u.regs][::5][:40]
    return with_fuzz(p, 'C07', 'props/C06.h', regs, tier, 150000, 6000000, max_len=130, chunk=10)

"""C16 — fraction follows the rationals (DESIGN 5, C16)."""
from .common import *

RULE = ('cases: fractions n/d (d != 0, both signs) over int8..int64 components: every single int8 and int16 fraction '
        '(reduce/canonical/conversion), every pair of fractions with components in [-8,7] (quick) and every pair of int8 '
        'fractions (2^32, thorough) for the six comparisons and hash/equality, generated pairs (independent, proportional '
        'k*n/k*d with k of either sign, numerator neighbours) and half-width components for arithmetic elsewhere; comparisons of '
        'fraction<N1, D1> with fraction<N2, D2> whose four component types differ (unsigned denominators / numerators included). oracle: '
        'exact rationals (GMP mpq; 128-bit cross products for orderings). preconditions as stated: cross products fit the '
        'promoted component type, |components| representable for std::gcd. non-trivial: a negative denominator is involved '
        'or gcd > 1; distinct by (site, operands).')


def plan(tier, seed):
    quick = tier == 'quick'
    T = [S8, S16, S32, S64]
    regs = []
    for t in T:
        regs += ['c16::Cmp<%s, %s>::reg()' % (t, t), 'c16::Arith<%s>::reg()' % t, 'c16::Single<%s>::reg()' % t,
                 'c16::Cmp4<%s, %s>::reg()' % (t, t)]
    for a, b in [(S8, S32), (S32, S8), (S16, S64), (S64, S32), (S32, S64)]:
        regs += ['c16::Cmp<%s, %s>::reg()' % (a, b), 'c16::Cmp4<%s, %s>::reg()' % (a, b)]
    # component types of their own, unsigned ones included
    for n1, d1, n2, d2 in [(S64, S32, S64, U32), (S64, U32, S64, S32), (S32, S8, S32, U8), (S64, S16, S32, U16), (S32, U16, S64, S8), (S16, S8, S16, U8),
                           (S64, S64, S64, U32), (U32, S32, S64, S32), (S64, S32, U16, S16), (S8, U8, S16, S8), (S64, U8, S64, S8), (S32, S32, S32, U16),
                           # one fraction type on both sides, numerator and denominator of different types (hash of equal fractions)
                           (U8, S8, U8, S8), (S8, U8, S8, U8), (U16, S32, U16, S32), (S32, U16, S32, U16), (S64, S32, S64, S32), (U32, S64, U32, S64), (U8, U8, U8, U8)]:
        regs.append('c16::CmpND<%s, %s, %s, %s>::reg()' % (n1, d1, n2, d2))
    cases = 300000 if quick else 4000000
    enum_max = 2 ** 16 if quick else 2 ** 32
    units = [Unit('C16-gxx-%d' % i, 'gxx', 'props/C16.h', part, rc_cases=cases, enum_max=enum_max, chunk=8)
             for i, part in enumerate(split(regs, 8))]
    units.append(Unit('C16-clang', 'clang', 'props/C16.h', regs[:8], rc_cases=cases, enum_max=2 ** 16, chunk=8))
    p = dict(units=units, rule=RULE, assumptions=['std::hash of the built-in components is the identity-like libstdc++ hash (only equality of hashes is checked)'])
    if not quick:
        p['stripes'] = {u.name: 16 for u in units}
        fz = [r for r in regs if 'CmpND' in r][:10] + [r for r in regs if 'Arith' in r or 'Single' in r]
        p = with_fuzz(p, 'C16', 'props/C16.h', fz, tier, 0, 2000000, max_len=200, chunk=6)
    return p

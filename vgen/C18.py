"""C18 — bit utilities match <bit> (DESIGN 5, C18)."""
from .common import *

RULE = ('cases: (function, x[, count]) per integer type; 8/16-bit values exhaustive for every function (and every rotation '
        'count 0..2w), 32-bit exhaustive in the thorough tier, 64/128-bit by the boundary/pattern/random generator; GCC '
        '(intrinsic specialisations) and Clang (generic definitions) builds. oracle: naive bit loops on unsigned __int128 '
        'cross-checked against libstdc++ <bit>. non-trivial: x in {0, all ones, single set bit, single clear bit, min, max} '
        'or rotation count a multiple of the width; distinct by (site, function, operands).')


def plan(tier, seed):
    quick = tier == 'quick'
    uns = UNSIGNED + ['unsigned long long']
    sig = SIGNED + ['long long']
    regs = ['c18::Unsigned<%s>::reg()' % t for t in uns] + ['c18::Rot<%s>::reg()' % t for t in uns] + \
           ['c18::Signed<%s>::reg()' % t for t in sig]
    cases = 200000 if quick else 4000000
    enum_max = 2 ** 24 if quick else 2 ** 37
    units = []
    for cfg in ('gxx', 'clang'):
        units.append(Unit('C18-%s' % cfg, cfg, 'props/C18.h', regs, rc_cases=cases, enum_max=enum_max, chunk=6))
    p = dict(units=units, rule=RULE, shards={u.name: 8 for u in units},
             assumptions=['x86-64; GCC 12 and Clang 14 at -O1 with UBSan traps (includes the builtin check: ctz/clz of 0)'])
    if not quick:
        p['stripes'] = {u.name: 16 for u in units}
    return p

"""C08 — division under a rounding mode (DESIGN 5, C08)."""
from .common import *

RULE = ('cases: (a,b) drawn by the 2.4 integer generator plus directed tie/near-tie (a = q*b + b/2 + d) and near-limit '
        'operands, and every 8-bit (quick) / 16-bit (thorough) operand plane enumerated; oracle: exact a/b rounded by the '
        'mode in 128-bit arithmetic, other operators against the built-in expression. non-trivial: a mod b != 0, a tie, '
        'or an operand within |b| of a limit of its type (ops sites: high bit set or an operand at max); distinct by '
        '(site, operands) fingerprint.')


def plan(tier, seed):
    quick = tier == 'quick'
    div, ops = [], []
    same = [(l, r) for l in UPTO64 for r in UPTO64 if signed(l) == signed(r)]
    # value-preserving mixed signedness pairs: unsigned narrower than the signed side's promoted type
    # (every such pair, both orders: the common type is signed because the unsigned side is promoted or narrower)
    mixed = [(l, r) for l in (S8, S16, S32, S64) for r in (U8, U16, U32) if bits(r) < max(32, bits(l))]
    mixed = mixed + [(r, l) for l, r in mixed]
    for tag in ROUNDING_TAGS:
        for l, r in same + mixed:
            if quick and bits(l) != bits(r) and (bits(l), bits(r)) not in ((8, 32), (32, 8), (64, 32), (32, 64), (16, 8)) and (l, r) not in mixed:
                continue
            div.append('c08::Div<%s, %s, %s, 0>::reg()' % (tag, l, r))
        for t in UPTO64:
            div.append('c08::Div<%s, %s, %s, 1>::reg()' % (tag, t, t))
        for l, r in [(S32, S32), (U32, U32), (S64, S32), (S8, S32), (U64, U64), (S64, S64)]:
            div.append('c08::Div<%s, %s, %s, 2>::reg()' % (tag, l, r))
        # compound assignment (same-typed and differently typed operands, built-in rhs) and a built-in dividend
        for l, r in [(S32, S32), (U32, U32), (S8, S8), (U8, U8), (S64, S64), (U64, U64), (S16, S16), (S32, S8), (S64, S32), (S8, S32), (U16, U32)]:
            div.append('c08::Div<%s, %s, %s, 3>::reg()' % (tag, l, r))
        for l, r in [(S32, S32), (U32, U32), (S8, S8), (S64, S32), (U64, U64)]:
            div.append('c08::Div<%s, %s, %s, 4>::reg()' % (tag, l, r))
            div.append('c08::Div<%s, %s, %s, 5>::reg()' % (tag, l, r))
        for l, r in [(t, t) for t in UPTO64] + [(S8, U8), (S32, S8), (U16, U64), (S64, S32), (U32, S64)]:
            ops.append('c08::Ops<%s, %s, %s>::reg()' % (tag, l, r))
    units = []
    cases = 30000 if quick else 200000
    enum_max = 2 ** 22 if quick else 2 ** 32
    for i, part in enumerate(split(div, 8)):
        units.append(Unit('C08-div-gxx-%d' % i, 'gxx', 'props/C08.h', part, rc_cases=cases, enum_max=enum_max, chunk=30))
    for i, part in enumerate(split(ops, 4)):
        units.append(Unit('C08-ops-gxx-%d' % i, 'gxx', 'props/C08.h', part, rc_cases=cases, enum_max=2 ** 23, chunk=12))
    # a clang slice: same sources, other compiler
    cl = [r for r in div if ', 0>' in r and ('int, int' in r or 'unsigned, unsigned' in r or 'long, long' in r or 'signed char, signed char' in r)]
    units.append(Unit('C08-div-clang', 'clang', 'props/C08.h', cl, rc_cases=cases, enum_max=2 ** 22, chunk=30))
    p = dict(units=units, rule=RULE, assumptions=[
        'x86-64, GCC 12 / Clang 14, -O1 with UBSan traps; 128-bit native arithmetic as the exact oracle',
        'mixed-signedness operand pairs only where the usual arithmetic conversions preserve both values'])
    if not quick:
        p['stripes'] = {u.name: 16 for u in units if 'div' in u.name}
    return p

"""C06 — overflow detected exactly, handled as the tag says (DESIGN 5, C06). Shared with C07 (total=True)."""
from .common import *

RULE = ('cases: (op, a, b) with op in {add, sub, mul, div, shl, unary minus, convert} over pairs of 8..128-bit signed/unsigned '
        'operand types, plus float/double/long double sources for convert; operands from the 2.4 generator and directed at the '
        'result limits (result == max, max+1, lowest, lowest-1; max/b +-1; value just (not) fitting after the shift); every '
        '8-bit x 8-bit operand plane enumerated for every op. Reached through the tagged custom_operator / cnl::convert and '
        'through overflow_integer, under saturated, throwing and trapping tags, on the compiler-intrinsic and the portable '
        'detection path (both forced on both compilers with hook H1). oracle: exact result in GMP integers; triggered iff '
        'outside numeric_limits of decltype(built-in expression); then bound / std::overflow_error / abort with the matching '
        'polarity text, else the exact value. non-trivial: exact result within 2 of a limit, operands of different signedness '
        'or width, or overflow triggered; distinct by (site, op, operands).')

TAGS = ['cnl::saturated_overflow_tag', 'cnl::_impl::throwing_overflow_tag', 'cnl::trapping_overflow_tag']
ALL = list(INTS)
FLOATS = ['float', 'double', 'long double']

# reduced pair set for the non-default combinations
FEW = [(S8, S8), (U8, U8), (S8, U8), (U8, S8), (S32, S32), (U32, U32), (S32, U32), (U32, S32), (S64, S64), (U64, U64), (S64, U64),
       (S16, U64), (S128, S128), (U128, U128), (S128, U128), (U128, S8), (S8, S64), (U16, S32), (S32, U8), (U64, S128)]


def regs_for(total, quick):
    T = 'true' if total else 'false'
    full, reduced, flt = [], [], []
    pairs = [(l, r) for l in ALL for r in ALL]
    for l, r in pairs:
        full.append('c06::Int<%s, %s, %s, 0, %s>::reg()' % (TAGS[0], l, r, T))
    for tag in TAGS:
        for l, r in FEW:
            if tag != TAGS[0]:
                reduced.append('c06::Int<%s, %s, %s, 0, %s>::reg()' % (tag, l, r, T))
            reduced.append('c06::Int<%s, %s, %s, 1, %s>::reg()' % (tag, l, r, T))
        for l, r in FEW:
            reduced.append('c06::Compound<%s, %s, %s, %s>::reg()' % (tag, l, r, T))
        for f in FLOATS:
            for dst in (S8, U8, S16, S32, U32, S64, U64, S128, U128):
                flt.append('c06::Flt<%s, %s, %s, 0, %s>::reg()' % (tag, f, dst, T))
                if dst in (S8, U32, S64):
                    flt.append('c06::Flt<%s, %s, %s, 1, %s>::reg()' % (tag, f, dst, T))
    return full, reduced, flt


def make_plan(prop, total, tier, rule):
    quick = tier == 'quick'
    full, reduced, flt = regs_for(total, quick)
    cases = 6000 if quick else 150000
    units = []

    def add(name, cfg, regs, n):
        for i, part in enumerate(split(regs, n)):
            units.append(Unit('%s-%s-%s-%d' % (prop, name, cfg.replace('+', '_'), i), cfg, 'props/C06.h', part, rc_cases=cases,
                              enum_max=2 ** 20, chunk=13))

    # native paths: GCC = intrinsic, Clang = portable; forced: the other path on each compiler
    add('full', 'gxx', full, 8)
    add('full', 'clang', full, 8)
    add('few', 'gxx', reduced + flt, 6)
    add('few', 'clang', reduced + flt, 6)
    add('full', 'gxx+portable', full if not quick else [r for r in full if any(('%s, %s,' % p) in r for p in FEW)], 8 if not quick else 2)
    add('full', 'clang+builtin', full if not quick else [r for r in full if any(('%s, %s,' % p) in r for p in FEW)], 8 if not quick else 2)
    if not quick:
        add('few', 'gxx+portable', reduced + flt, 6)
        add('few', 'clang+builtin', reduced + flt, 6)
    # overflow_integer over CNL integer wrappers (two's-complement wide_integer words, symmetric elastic_integer)
    wr = []
    for tag in ('cnl::saturated_overflow_tag', 'cnl::_impl::throwing_overflow_tag', 'cnl::trapping_overflow_tag'):
        for rep, rl in [('cnl::wide_integer<31>', 'wide31'), ('cnl::wide_integer<63>', 'wide63'), ('cnl::wide_integer<15, short>', 'wide15_short'),
                        ('cnl::elastic_integer<20>', 'elastic20'), ('cnl::wide_integer<32, unsigned>', 'wide32u'), ('cnl::wide_integer<127>', 'wide127')]:
            wr.append('c06::WrapRep<%s, %s, %s>::reg("%s")' % (tag, rep, 'true' if total else 'false', rl))
    units.append(Unit('%s-wrap-gxx' % prop, 'gxx', 'props/C06.h', wr, rc_cases=cases * 5, enum_max=0, chunk=6))
    units.append(Unit('%s-wrap-clang' % prop, 'clang', 'props/C06.h', wr[:8], rc_cases=cases * 5, enum_max=0, chunk=6))
    # scaled_integer<overflow_integer<Rep, Tag>>: every exponent gap (signed reps reject gaps beyond their digits at compile time)
    sweeps = []
    for tag, tn in (('cnl::saturated_overflow_tag', 'saturated'), ('cnl::_impl::throwing_overflow_tag', 'throwing'), ('cnl::trapping_overflow_tag', 'trapping')):
        for rep, rn, hi in (('unsigned', 'u32', 70), ('int', 'i32', 30), ('unsigned char', 'u8', 40), ('unsigned long', 'u64', 70)):
            sweeps.append(('So_%s_%s' % (tn, rn), 'c06::ScaledOvf<%s, %s, E, %s>' % (tag, rep, 'true' if total else 'false'), 'scaled-overflow|%s|%s' % (tn, rn), 1, hi))
    units += sweep_units(prop, 'props/C06.h', sweeps, cases * 4, nunits=6, keep=(lambda i, r: i % 2 == 0) if quick else None)
    return dict(units=units, rule=rule, assumptions=[
        'the trapping tag is observed through hook H2 (abort hook + longjmp) rather than by letting the process die',
        'UB or an internal error inside CNL is a failure for both C06 and C07 (classes .../ub-trap, .../abort:...)'])


def trap_processes(ctx):
    """trapping tag = real process death: 10 subprocess cases per compiler, hooks present but inert"""
    import verif, os, subprocess
    res = dict(name='trap-process', cfg='gxx', evaluations=0, distinct_nontrivial=0, labels={}, samples=[], failures=[],
               note='real subprocesses: SIGABRT and "positive overflow"/"negative overflow" on stderr for 8 overflowing cases, normal return for 2')
    src = os.path.join(verif.HARNESS, 'aux', 'trap_process.cpp')
    for cfg in ('gxx', 'clang'):
        cc = verif.CFGS[cfg][0]
        exe = os.path.join(ctx['outdir'], 'trap_process_' + cfg)
        r = verif.run([cc, '-std=gnu++20', '-O1', '-w', '-D' + verif.GUARD, '-I' + os.path.join(verif.REPO, 'include'), src, '-o', exe])
        if r.returncode != 0:
            res['failures'].append(dict(site='C06|trap-process|' + cfg, **{'class': 'does-not-compile'}, msg=r.stdout[-500:], desc='trap_process.cpp', confirmed=True))
            continue
        expect = ['positive overflow', 'negative overflow'] * 4 + [None, None]
        for k, want in enumerate(expect):
            p = subprocess.run([exe, str(k)], stdout=subprocess.PIPE, stderr=subprocess.PIPE, text=True)
            res['evaluations'] += 1
            res['distinct_nontrivial'] += 1 if want else 0
            ok = (p.returncode == -6 and want in p.stderr and 'returned' not in p.stdout) if want else (p.returncode == 0 and 'returned' in p.stdout)
            res['labels']['trap-process-' + ('dies' if want else 'returns')] = res['labels'].get('trap-process-' + ('dies' if want else 'returns'), 0) + 1
            if not ok:
                res['failures'].append(dict(site='C06|trap-process|%s|case%d' % (cfg, k), **{'class': 'trapping-does-not-terminate-as-specified'},
                                            msg='expected %s, got rc=%s stderr=%r stdout=%r' % (want or 'normal return', p.returncode, p.stderr[:80], p.stdout[:40]),
                                            desc='trap_process case %d' % k, confirmed=True))
        res['samples'].append(dict(site='C06|trap-process|' + cfg, cfg=cfg, case='case 0: add(INT_MAX, 2) under trapping -> SIGABRT + "positive overflow"'))
    return [res]


def plan(tier, seed):
    p = make_plan('C06', False, tier, RULE)
    p['extra'] = trap_processes
    return p

"""C14 — text denotes the value (same sites as C13, text oracle)."""
from . import C13


def plan(tier, seed):
    return dict(units=C13.make(14, tier), rule=C13.RULE14, assumptions=[
        'the precision allowance for the documented 64-bit significand limit is 1e-16 relative'])

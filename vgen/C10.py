"""C10 — wide_integer is N-bit two's complement (DESIGN 5, C10)."""
from .common import *
from .C01 import short

RULE = ('cases: (op, a, b, n) over wide_integer<Digits, Narrowest> instantiations (digits 65..2048 incl. non-power-of-two limb '
        'counts and >= 129-limb Karatsuba sizes, limb types of 8/16/32/64 bits, signed and unsigned) with op in {+,-,*,/,%,unary -,~,'
        '&,|,^,<<,>> (count in [0,width)), six comparisons, ++/--, from/to built-in integers, to/from float/double/long double, '
        'decimal text, numeric_limits}; limb-structured operands (all-ones limbs, single bits, alternating patterns, random), '
        'division-directed operands (short divisors, a = q*b + {0, b-1}, divisor top limb with high bit clear/set against an '
        'all-ones dividend, remainder prefix equal to the divisor prefix). values enter and leave through the limb array. oracle: '
        'GMP integers reduced to the storage width in two\'s complement (tdiv for / %, floor shift for >>), faithful rounding to '
        'floating point (MPFR), exact decimal string. non-trivial: an operand with more than one significant limb; distinct by '
        '(site, op, operands).')

QUICK = [(65, 'int'), (127, 'int'), (100, 'unsigned'), (128, 'int'), (129, 'int'), (160, 'unsigned'), (200, 'int'), (255, 'std::int64_t'), (256, 'std::uint64_t'),
         (256, 'unsigned'), (300, 'std::uint8_t'), (511, 'std::int16_t'), (1000, 'int'), (1024, 'std::uint16_t'), (2000, 'std::uint8_t'), (2048, 'unsigned'),
         (2048, 'std::uint8_t'), (2047, 'std::int8_t'),  # 256 limbs: Karatsuba with a power-of-two limb count
         (1056, 'std::uint8_t'), (8192, 'unsigned')]  # 132 limbs -> 66 -> 33 (no odd count above the 48-limb base case); 256 32-bit limbs
MORE = [(1120, 'std::uint8_t'), (1184, 'std::int8_t'), (1504, 'std::uint8_t'), (1280, 'std::uint8_t'),  # Karatsuba sizes: 140, 148, 188, 160 limbs
        (200, 'std::uint64_t'), (512, 'std::int64_t'), (1088, 'std::int8_t'), (2000, 'std::int64_t'), (1000, 'std::uint8_t'), (129, 'std::uint16_t'),
        (4096, 'unsigned'), (130, 'std::uint8_t'), (193, 'std::int64_t'), (320, 'std::uint16_t'), (192, 'std::uint64_t'), (1100, 'std::uint8_t')]


def plan(tier, seed):
    quick = tier == 'quick'
    regs = ['c10::Wide<%d, %s, %s, %s>::reg("%d|%s")' % (dg, n, 'true' if dg <= 127 else 'false', 'true' if n in ('int', 'unsigned') else 'false', dg, short(n))
            for dg, n in (QUICK if quick else QUICK + MORE)]
    cases = 100000 if quick else 1500000
    units = [Unit('C10-gxx-%d' % i, 'gxx', 'props/C10.h', [r], rc_cases=cases, chunk=1, words=64) for i, r in enumerate(regs)]
    units.append(Unit('C10-clang-0', 'clang', 'props/C10.h', regs[5:6], rc_cases=cases, chunk=1, words=64))
    units.append(Unit('C10-clang-1', 'clang', 'props/C10.h', regs[9:10], rc_cases=cases, chunk=1, words=64))
    # every width: single-word (65..127) and multi-limb storage with each limb type (the storage rounds Digits up to whole limbs, so
    # Digits mod limb width takes every value)
    sweeps = [
        ('Sw_w1_int', 'c10::Wide<E, int, true, true>', 'sweep|E|int', 65, 127),
        ('Sw_w1_u', 'c10::Wide<E, unsigned, true, true>', 'sweep|E|unsigned', 65, 127),
        ('Sw_w_int', 'c10::Wide<E, int, false, true>', 'sweep|E|int', 128, 331),
        ('Sw_w_u', 'c10::Wide<E, unsigned, false, true>', 'sweep|E|unsigned', 129, 260),
        ('Sw_w_i64', 'c10::Wide<E, std::int64_t, false, false>', 'sweep|E|std::int64_t', 128, 331),
        ('Sw_w_u8', 'c10::Wide<E, std::uint8_t, false, false>', 'sweep|E|std::uint8_t', 128, 259),
        ('Sw_w_i16', 'c10::Wide<E, std::int16_t, false, false>', 'sweep|E|std::int16_t', 128, 259),
    ]
    # (a sweep over every 8-bit limb count 129..200 is not possible: uintwide_t only accepts widths of the form 2^k * j, j <= 64)
    units += sweep_units('C10', 'props/C10.h', sweeps, cases, nunits=16, keep=(lambda i, r: i % 3 == 0) if quick else None, words=64)
    from .common import with_fuzz
    return with_fuzz(dict(units=units, rule=RULE, assumptions=['values are moved in and out of wide types through the limb array (uintwide_t::representation), never through CNL arithmetic']), 'C10', 'props/C10.h', [regs[3], regs[5], regs[6], regs[9]], tier, 40000, 2000000, max_len=514, chunk=1)

"""C09 — narrowing conversions under a rounding mode (DESIGN 5, C09)."""
from .common import *
from .C01 import sc, short

RULE = ('cases: source values for (source, destination, rounding tag, form) sites: float/double/long double and finer '
        'scaled_integer sources into integers, coarser scaled_integer, rounding_integer, scaled_integer<rounding_integer> and '
        'static_number, through cnl::convert<Tag, Dest>, construction and assignment. sources are built as (k + f) destination '
        'units with f in {0, 1/2, 1/4, 3/4, random} then moved by 0..2 ulps (ties, near-ties), k up to the destination limits; '
        'all values of 8/16-bit source reps enumerated. oracle: exact source rational (floats decoded bit-exactly), divided by '
        'the destination unit and rounded by the mode in GMP; conversions that lose no digits must be exact under every mode. '
        'precondition: the rounded result is representable. non-trivial: digits are lost; ties / near-ties labelled '
        'separately; distinct by (site, source).')

TAGS = [('cnl::native_rounding_tag', 'native'), ('cnl::neg_inf_rounding_tag', 'neg_inf'), ('cnl::nearest_rounding_tag', 'nearest'),
        ('cnl::tie_to_pos_inf_rounding_tag', 'tie_to_pos_inf')]
FLOATS = [('float', 'f32'), ('double', 'f64'), ('long double', 'f80')]


def plan(tier, seed):
    quick = tier == 'quick'
    regs = []
    for tag, tn in TAGS:
        for f, fl in FLOATS:
            # float -> built-in integer
            for dst in (S8, U8, S16, S32, U32, S64, U64):
                regs.append('c09::Conv<%s, %s, %s, 0>::reg("%s|%s")' % (tag, f, dst, fl, short(dst)))
            # float -> scaled_integer
            for r, e in ((S8, -4), (S16, -8), (S32, -16), (U32, -8), (S32, 4), (S64, -31), (U16, 0)):
                regs.append('c09::Conv<%s, %s, %s, 0>::reg("%s|%s:%d")' % (tag, f, sc(r, e), fl, short(r), e))
            # float -> rounding_integer / scaled<rounding_integer> / static_number (construction, assignment)
            for r in (S8, S32, S64, U16):
                regs.append('c09::Conv<%s, %s, cnl::rounding_integer<%s, %s>, 1>::reg("%s|rounding_integer_%s")' % (tag, f, r, tag, fl, short(r)))
            regs.append('c09::Conv<%s, %s, cnl::rounding_integer<int, %s>, 2>::reg("%s|rounding_integer_int")' % (tag, f, tag, fl))
            for r, e in ((S32, -8), (S16, -4), (S64, -20)):
                regs.append('c09::Conv<%s, %s, cnl::scaled_integer<cnl::rounding_integer<%s, %s>, cnl::power<%d>>, 1>::reg("%s|scaled_rounding_%s:%d")'
                            % (tag, f, r, tag, e, fl, short(r), e))
            for dg, e in ((15, -8), (24, -20), (40, -10)):
                regs.append('c09::Conv<%s, %s, cnl::static_number<%d, %d, %s>, 1, true>::reg("%s|static_number%d:%d")' % (tag, f, dg, e, tag, fl, dg, e))
        # scaled -> coarser / equal / finer scaled, and scaled -> int
        for sr, se, dr, de in [(S32, -8, S32, -4), (S32, -8, S32, -1), (S16, -8, S8, 0), (S64, -32, S32, -1), (U32, -8, U32, -4),
                               (S32, -4, S32, -4), (S32, -4, S64, -8), (S64, -20, S16, -13), (U16, -7, U8, 0), (S32, -2, S32, 5), (S8, -7, S8, -6)]:
            regs.append('c09::Conv<%s, %s, %s, 0>::reg("%s:%d|%s:%d")' % (tag, sc(sr, se), sc(dr, de), short(sr), se, short(dr), de))
            regs.append('c09::Conv<%s, %s, cnl::scaled_integer<cnl::rounding_integer<%s, %s>, cnl::power<%d>>, 1>::reg("%s:%d|scaled_rounding_%s:%d")'
                        % (tag, sc(sr, se), dr, tag, de, short(sr), se, short(dr), de))
        for sr, se, dst in [(S32, -8, S32), (S16, -4, S8), (S64, -31, S32), (U32, -16, U16), (S32, -1, S64), (S8, -7, S8)]:
            regs.append('c09::Conv<%s, %s, %s, 0>::reg("%s:%d|%s")' % (tag, sc(sr, se), dst, short(sr), se, short(dst)))
            regs.append('c09::Conv<%s, %s, cnl::rounding_integer<%s, %s>, 1>::reg("%s:%d|rounding_integer_%s")' % (tag, sc(sr, se), dst, tag, short(sr), se, short(dst)))
    cases = 10000 if quick else 150000
    units = [Unit('C09-gxx-%d' % i, 'gxx', 'props/C09.h', part, rc_cases=cases, enum_max=2 ** 16, chunk=8)
             for i, part in enumerate(split(regs, 16))]
    cl = [r for r in regs if '"f32|' in r or '"f80|' in r][::3][:40]
    units.append(Unit('C09-clang', 'clang', 'props/C09.h', cl, rc_cases=cases, enum_max=2 ** 16, chunk=8))
    # every shift distance under every rounding mode: finer source -> exponent 0, and floating point -> every destination exponent
    sweeps = []
    pE = 'cnl::power<E>'
    for tag, tn in TAGS:
        t = tn.replace('tie_to_pos_inf', 'tie')
        sweeps += [
            ('Sw_%s_s32' % t, 'c09::Conv<%s, cnl::scaled_integer<int, %s>, %s, 0>' % (tag, pE, sc(S32, 0)), 'convert|%s|int:E|int:0' % tn, -30, -1),
            ('Sw_%s_s64' % t, 'c09::Conv<%s, cnl::scaled_integer<long, %s>, %s, 0>' % (tag, pE, sc(S32, 0)), 'convert|%s|long:E|int:0' % tn, -30, -1),
            ('Sw_%s_s64l' % t, 'c09::Conv<%s, cnl::scaled_integer<long, %s>, %s, 0>' % (tag, pE, sc(S64, 0)), 'convert|%s|long:E|long:0' % tn, -62 if tn in ('native', 'neg_inf') else -30, -1),  # nearest / tie: shifts >= 31 are rejected at compile time
            ('Sw_%s_u16r' % t, 'c09::Conv<%s, cnl::scaled_integer<unsigned short, %s>, cnl::scaled_integer<cnl::rounding_integer<unsigned char, %s>, cnl::power<0>>, 1>' % (tag, pE, tag),
             'ctor|%s|unsigned_short:E|scaled_rounding_unsigned_char:0' % tn, -15, -1),
            # the representation is itself a rounding_integer (the rep's own scale<> does the rounding): distances up to the rep's digits
            ('Sw_%s_r8' % t, 'c09::Conv<%s, cnl::scaled_integer<cnl::rounding_integer<signed char, %s>, %s>, cnl::scaled_integer<cnl::rounding_integer<signed char, %s>, cnl::power<0>>, 1>' % (tag, tag, pE, tag),
             'ctor|%s|signed_char:E|rounding_rep|scaled_rounding_signed_char:0' % tn, -7, -1),
            ('Sw_%s_r16' % t, 'c09::Conv<%s, cnl::scaled_integer<cnl::rounding_integer<short, %s>, %s>, cnl::scaled_integer<cnl::rounding_integer<int, %s>, cnl::power<0>>, 1>' % (tag, tag, pE, tag),
             'ctor|%s|short:E|rounding_rep|scaled_rounding_int:0' % tn, -15, -1),
            ('Sw_%s_r32' % t, 'c09::Conv<%s, cnl::scaled_integer<cnl::rounding_integer<int, %s>, %s>, cnl::scaled_integer<cnl::rounding_integer<int, %s>, cnl::power<0>>, 2>' % (tag, tag, pE, tag),
             'assign|%s|int:E|rounding_rep|scaled_rounding_int:0' % tn, -30, -1),
            ('Sw_%s_f64' % t, 'c09::Conv<%s, double, cnl::scaled_integer<int, %s>, 0>' % (tag, pE), 'convert|%s|f64|int:E' % tn, -40, 24),
        ]
    units += sweep_units('C09', 'props/C09.h', sweeps, cases * 2, nunits=8, keep=(lambda i, r: i % 2 == 0) if quick else None)
    p = dict(units=units, rule=RULE, assumptions=['long double arithmetic of the host (x87 80-bit) is what CNL computes with; the oracle never uses floating-point arithmetic'])
    if not quick:  # coverage-guided campaign over a slice of the same sites (thorough tier only)
        fz = regs[::17][:30]
        p = with_fuzz(p, 'C09', 'props/C09.h', fz, tier, 0, 1500000, max_len=200, chunk=6)
    return p

#!/bin/sh
# Runs the repository's pinned test suite with the verification guard OFF (no -DJOHNMCFARLANE_CNL_VERIF):
# the suite is built exactly as configured in /repo/_build (g++ -std=gnu++20 -O2 -DNDEBUG), then run by ctest.
# Two targets (test-unit-index, test-unit-boost.multiprecision) do not compile against the installed Boost on the
# pinned commit either; they are "Not Run" in the baseline too and carry none of the 469 baseline tests.
set -u
REPO=${VERIF_REPO:-/repo}
if [ ! -d "$REPO/_build" ]; then cmake -G Ninja -B "$REPO/_build" -S "$REPO" -DCMAKE_BUILD_TYPE=RelWithDebInfo -DCMAKE_CXX_FLAGS=-Wno-error >/dev/null || exit 2; fi
cmake --build "$REPO/_build" -- -k 0 >/tmp/cnl_baseline_build.log 2>&1
ctest --test-dir "$REPO/_build" -j8 --timeout 900 --output-junit /tmp/cnl_baseline.junit.xml >/tmp/cnl_baseline_ctest.log 2>&1
tail -8 /tmp/cnl_baseline_ctest.log
bad=$(grep -E '^\s+[0-9]+ - ' /tmp/cnl_baseline_ctest.log | grep -v -E 'test-unit-index|test-unit-boost.multiprecision' | wc -l)
if [ "$bad" -eq 0 ]; then echo "baseline ok (guard off)"; exit 0; else echo "baseline FAILED: $bad unexpected failing tests"; exit 1; fi

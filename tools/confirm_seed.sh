#!/bin/sh
# confirm_seed.sh <seed-out-dir> <name>: confirm a seeded defect in a scratch worktree of /repo:
#  (1) demo passes on the unchanged tree, (2) patch applies, (3) demo fails with the patch,
#  (4) the existing suite still builds and gives the baseline result with the patch. Writes <dir>/confirm.txt.
D=$1; N=$2; WT=/tmp/seedconfirm-$N
rm -rf $WT; git -C /repo worktree add -q --detach $WT HEAD || exit 2
R=$D/confirm.txt; : > $R
g++ -std=gnu++20 -O1 -I$WT/include $D/demo.cpp -o $WT/demo_clean 2>>$R && (cd $WT && ./demo_clean >/dev/null 2>&1); echo "demo_unchanged_exit=$?" >> $R
git -C $WT apply $D/patch.diff 2>>$R; echo "apply_exit=$?" >> $R
g++ -std=gnu++20 -O1 -I$WT/include $D/demo.cpp -o $WT/demo_patched 2>>$R && (cd $WT && ./demo_patched >/dev/null 2>&1); echo "demo_patched_exit=$?" >> $R
cmake -G Ninja -B $WT/_build -S $WT -DCMAKE_BUILD_TYPE=RelWithDebInfo -DCMAKE_CXX_FLAGS=-Wno-error >/dev/null 2>&1
cmake --build $WT/_build -- -k 0 > $WT/build.log 2>&1
echo "build_failed_targets=$(grep -c '^FAILED' $WT/build.log) ($(grep '^FAILED' $WT/build.log | sed -E 's/.*dir\/(.*)\.cpp\.o.*/\1/' | tr '\n' ' '))" >> $R
ctest --test-dir $WT/_build -j16 --timeout 900 > $WT/ctest.log 2>&1
grep -E "tests passed|tests failed" $WT/ctest.log >> $R
echo "unexpected_failing_tests=$(grep -E '^\s+[0-9]+ - ' $WT/ctest.log | grep -v -E 'test-unit-index|test-unit-boost.multiprecision' | wc -l)" >> $R
git -C /repo worktree remove --force $WT
cat $R

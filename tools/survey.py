#!/usr/bin/env python3
"""survey.py <PROP> [cases] [regex]: diagnostic tally of passes (by label) and failures (by class) per site, from uniformly
random word vectors (engine 'survey' mode). Never part of a verdict; used to map failure regions before writing cause regions."""
import sys, os, json, collections, subprocess, importlib, concurrent.futures as cf
sys.path.insert(0, os.path.dirname(os.path.dirname(os.path.abspath(__file__))))
import verif
prop = sys.argv[1]
cases = sys.argv[2] if len(sys.argv) > 2 else '100000'
only = sys.argv[3] if len(sys.argv) > 3 else ''
mod = importlib.import_module('vgen.' + prop)
plan = mod.plan('quick', 1)
units = [u for u in plan['units'] if u.cfg == os.environ.get('SURVEY_CFG', 'gxx')]
verif.build_units(units)
os.makedirs('/verif/build/survey', exist_ok=True)
def one(u):
    out = '/verif/build/survey/%s.json' % u.name
    cmd = [u.binary, 'survey', '--out', out, '--cases', cases, '--words', str(u.words), '--seed', '7']
    if only: cmd += ['--only', only]
    if u.tick_limit: cmd += ['--tick-limit', str(u.tick_limit)]
    subprocess.run(cmd, stdout=subprocess.DEVNULL, stderr=subprocess.DEVNULL)
    return json.load(open(out))
P = collections.Counter(); F = collections.Counter()
with cf.ThreadPoolExecutor(16) as ex:
    for j in ex.map(one, units):
        for s in j['sites']:
            for k, v in s['labels'].items():
                P[(s['site'], k)] += v
            for k, v in s['failclasses'].items():
                F[(s['site'], k)] += v
for k in sorted(set(P) | set(F)):
    print('%-40s %-60s pass=%-8d fail=%d' % (k[0], k[1], P[k], F[k]))

#!/bin/sh
# run_thorough.sh [ID...]: runs the thorough tier of the given (default: all) properties one after the other and prints one
# summary line each; full output under build/thorough/<ID>.out. Evidence files are rewritten by the runs (tier=thorough).
cd /verif; mkdir -p build/thorough
[ -n "$(git -C /repo status --porcelain --untracked-files=no)" ] && { echo "/repo has uncommitted changes (a seed trial?): not starting"; exit 2; }
[ $# -eq 0 ] && set -- C01 C02 C03 C04 C05 C06 C07 C08 C09 C10 C11 C12 C13 C14 C15 C16 C17 C18 C19 C20
for i in "$@"; do
  t0=$(date +%s)
  VERIF_TIER=thorough python3 verif.py check $i --tier thorough > build/thorough/$i.out 2> build/thorough/$i.err; rc=$?
  [ $rc -eq 0 ] && mkdir -p evidence/thorough && cp evidence/$i.json evidence/thorough/$i.json  # kept next to the quick-tier evidence
  echo "$i rc=$rc $(( $(date +%s) - t0 ))s $(grep -a "^$i tier" build/thorough/$i.out | cut -c1-160)"
  grep -a "VIOLATION\|unlisted" build/thorough/$i.out | head -8 | cut -c1-300
done

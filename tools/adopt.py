#!/usr/bin/env python3
"""Append a known finding to known_findings.jsonl, taking the witness from a replay file.
usage: adopt.py <finding-id> <site_regex> <class_regex> <replay.json> <what> <root_cause>"""
import json, sys, os
fid, site_re, class_re, rp, what, cause = sys.argv[1:7]
r = json.load(open(rp))
w = {k: r[k] for k in ('site', 'cfg', 'words', 'enum_idx', 'file', 'program') if k in r}
e = dict(kind='finding', id=fid, property=r['property'], site_regex=site_re, class_regex=class_re, what=what,
         root_cause=cause, witness=w, witness_desc=r.get('desc', ''), observed=r.get('msg', ''))
root = os.path.dirname(os.path.dirname(os.path.abspath(__file__)))
with open(os.path.join(root, 'known_findings.jsonl'), 'a') as f:
    f.write(json.dumps(e) + '\n')
print('added', fid)

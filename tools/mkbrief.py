#!/usr/bin/env python3
"""Prepare a scratch worktree and a brief for a seeded-defect sub-agent: mkbrief.py C08"""
import json, sys, subprocess, os
pid = sys.argv[1]
for l in open('/verif/properties.jsonl'):
    p = json.loads(l)
    if p['id'] == pid:
        break
text = '**%s — %s**\n\n%s\n\nQuantified over: %s' % (p['id'], p['title'], p['statement'], p['quantifier']['text'])
wt = '/tmp/seed/wt-' + pid
if not os.path.exists(wt):
    subprocess.check_call(['git', '-C', '/repo', 'worktree', 'add', '-q', '--detach', wt, 'HEAD'])
os.makedirs('/tmp/seed/out/%s' % pid, exist_ok=True)
t = open('/tmp/seed/brief_template.md').read().replace('__PROPERTY__', text).replace('__WT__', wt).replace('__ID__', pid)
open('/tmp/seed/brief-%s.md' % pid, 'w').write(t)
print(t)

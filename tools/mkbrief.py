#!/usr/bin/env python3
"""Prepare a scratch worktree and a brief for a seeded-defect sub-agent: mkbrief.py C08"""
import json, sys, subprocess, os
pid = sys.argv[1]
rnd = sys.argv[2] if len(sys.argv) > 2 else ''  # e.g. "r2": second round, different ideas
for l in open('/verif/properties.jsonl'):
    p = json.loads(l)
    if p['id'] == pid:
        break
text = '**%s — %s**\n\n%s\n\nQuantified over: %s' % (p['id'], p['title'], p['statement'], p['quantifier']['text'])
tag = pid + rnd
wt = '/tmp/seed/wt-' + tag
if not os.path.exists(wt):
    subprocess.check_call(['git', '-C', '/repo', 'worktree', 'add', '-q', '--detach', wt, 'HEAD'])
os.makedirs('/tmp/seed/out/%s' % tag, exist_ok=True)
tpl = '/tmp/seed/brief_template.md' if os.path.exists('/tmp/seed/brief_template.md') else '/verif/tools/seed_brief_template.md'
t = open(tpl).read().replace('__PROPERTY__', text).replace('__WT__', wt).replace('__ID__', tag)
if rnd:
    taken = []
    for v in ('A', 'B', 'C', 'D', 'E', 'F', 'G', 'H'):
        mp = '/verif/seeded/%s-%s/meta.json' % (pid, v)
        if os.path.exists(mp):
            m = json.load(open(mp))
            taken.append('- %s (files: %s)' % (m.get('summary', '')[:300], ', '.join(m.get('files', []))))
    t += '\n\n## Already taken\n\nSeveral seeded defects for this property exist already; yours must use DIFFERENT ideas and preferably different functions/files:\n' + '\n'.join(taken)
    if rnd == 'r4':
        t += ('\n\nIn this round be adversarial. Assume the property is guarded by a strong generated-input test suite that enumerates every value of 8- and 16-bit '
              'types, tries boundary values (0, +-1, min, max, powers of two and their neighbours, all-ones) and many random values of wider types, sweeps every exponent, '
              'digit count and width, uses every operator form (binary, compound, ++/--, built-in operand on either side, free functions), both compilers and every tag. '
              'Devise a defect that such a suite could still plausibly miss: one that needs a CONJUNCTION of two or three independent uncommon conditions (a particular '
              'type/template-argument combination AND a particular relation between the operand values AND perhaps a particular operator form), or one that is confined to '
              'a region of 32/64/128-bit operand values that is neither a boundary value nor likely to be hit by random or structured sampling, while remaining reachable '
              'through the public API on in-domain inputs. Say in meta.json why you expect it to be missed.\n')
    elif rnd == 'r5':
        t += ('\n\nIn this round produce ONLY ONE defect (directory A; skip B) and be quick: you have about 15 minutes in total, so pick an idea fast, '
              'make the change, write the demo, run the suite once, write the files and stop. Assume the property is guarded by a strong generated-input test suite '
              '(exhaustive 8/16-bit operands, boundary values, random wide values, sweeps over exponents / digits / widths / radices, every operator form, both compilers). '
              'Look for a part of the behaviour the property statement covers that such a suite could still have left out: a helper or overload reached only through an '
              'uncommon spelling (a free function, a function object, a constructor from an unusual source type, a deduction guide, a conversion between two different '
              'wrapper nestings), a template-argument combination that is rarely crossed with another, or a defect that needs two cooperating sites. '
              'It must be reachable through the public API on in-domain inputs. Say in meta.json why you expect it to be missed.\n')
    elif rnd == 'r3':
        t += ('\n\nIn this round look for parts of the behaviour the property covers that are reached through LESS COMMON ENTRY POINTS or forms: free functions and '
              'function objects next to operators, compound assignment and increment/decrement, operands in the other order (built-in on the left), conversions between '
              'different wrapper families or nestings, constexpr versus run-time evaluation, the second compiler (clang++ 14 is installed; some code is selected by '
              '#if on the compiler), unsigned or 128-bit or 8/16-bit reps, non-default template arguments (radix 10, a different Narrowest, a different limb type), and '
              'values that are special for one code path only (0, 1, -1, most negative, exact powers of two, all-ones). A defect that only shows for ONE such form while every '
              'common form stays correct is ideal.\n')
    else:
        t += '\n\nIn this round prefer defects of the kinds: two cooperating sites that each look fine alone; a multi-step sequence of operations; a type/width/exponent combination that is rarely used; an off-by-one at a chunk/limb/digit boundary.\n'
open('/tmp/seed/brief-%s.md' % tag, 'w').write(t)
print(t)

#!/bin/sh
# try_seed.sh <patch> <PROP> [tier]: apply a seeded patch to /repo, run the check, undo. Prints the verdict lines.
P=$1; ID=$2; TIER=${3:-quick}
git -C /repo apply "$P" || { echo "patch does not apply"; exit 2; }
cd /verif && python3 verif.py check $ID --tier $TIER 2>/dev/null | grep -v "^KNOWN-FINDING" | head -${LINES_MAX:-6}
git -C /repo checkout -- .

#!/bin/sh
# try_seed.sh <patch> <PROP> [tier]: run the check of PROP against a scratch copy of /repo with a seeded patch applied.
# Nothing in /repo or /verif/evidence is touched: the copy is a git worktree under /tmp, build and evidence go to /tmp as well,
# so this can run next to ordinary checks. Prints the verdict lines.
P=$1; ID=$2; TIER=${3:-quick}
S=/tmp/seedtrial-$$; WT=$S/repo
mkdir -p $S && git -C /repo worktree add -q --detach $WT HEAD || { echo "cannot create scratch worktree"; exit 2; }
git -C $WT apply "$P" || { echo "patch does not apply"; git -C /repo worktree remove --force $WT; rm -rf $S; exit 2; }
cd /verif && VERIF_REPO=$WT VERIF_BUILD=$S/build VERIF_EVIDENCE=$S/evidence python3 verif.py check $ID --tier $TIER 2>/dev/null | grep -v "^KNOWN-FINDING" | head -${LINES_MAX:-6}
git -C /repo worktree remove --force $WT; rm -rf $S

#!/bin/sh
# seed_sweep.sh "<props>" "<seeds>" [tier]: run checks on the unchanged tree for several seeds; print verdict lines only
for p in $1; do for s in $2; do
  out=$(VERIF_SEED=$s python3 /verif/verif.py check $p --tier ${3:-quick} 2>/dev/null | grep -v "^KNOWN-FINDING")
  echo "$p seed=$s rc=$? :: $(echo "$out" | grep -c VIOLATION) violations :: $(echo "$out" | grep -m1 'tier=')"
  echo "$out" | grep "unlisted" | head -5
done; done

#!/usr/bin/env python3
"""symptoms.py [ID...]: from evidence/<ID>.json list, per known finding, the failure classes that were excluded under it on the last
run, next to the finding's class regex. Used to keep each class regex as narrow as the symptoms actually seen (a regex ending in .*
hides any new symptom inside the region)."""
import json, sys, os, glob
root = os.path.dirname(os.path.dirname(os.path.abspath(__file__)))
kf = {}
for l in open(os.path.join(root, 'known_findings.jsonl')):
    j = json.loads(l)
    if j.get('kind') == 'finding':
        kf[j['id']] = j
ids = sys.argv[1:] or sorted(os.path.basename(f)[:-5] for f in glob.glob(os.path.join(root, 'evidence', 'C*.json')))
for i in ids:
    e = json.load(open(os.path.join(root, 'evidence', i + '.json')))
    for k, v in e['coverage'].get('excluded_known', {}).items():
        print('%s %s hits=%d\n   regex: %s' % (i, k, v['hits'], kf.get(k, {}).get('class_regex')))
        for c, n in sorted(v.get('classes', {}).items(), key=lambda t: -t[1]):
            print('   %8d  %s' % (n, c[:200]))

#!/bin/sh
# keep_r2.sh <PROP>...: for later-round seeds in /tmp/seed/out/<PROP>$ROUND/{A,B} (ROUND=r2 -> variants C D, ROUND=r3 -> E F; already
# confirmed by confirm_seed.sh): run the quick check against the patched scratch copy and file the seed as seeded/<PROP>-<variant>
# when it is reported.
ROUND=${ROUND:-r2}
case $ROUND in r2) NAMES="C D";; r3) NAMES="E F";; r5) NAMES="I J";; *) NAMES="G H";; esac
cd /verif
for p in "$@"; do i=0; for v in A B; do nv=$(echo "$NAMES" | cut -d' ' -f$((i+1))); i=$((i+1))
  [ -f /tmp/seed/out/${p}${ROUND}/$v/confirm.txt ] || { echo "$p-$nv: not confirmed yet"; continue; }
  out=$(sh tools/try_seed.sh /tmp/seed/out/${p}${ROUND}/$v/patch.diff $p 2>&1)
  line=$(echo "$out" | grep -a -m1 "unlisted failure\|regression\|uncompil" | cut -c1-260); nviol=$(echo "$out" | grep -ac VIOLATION)
  echo "$p-$nv: viol=$nviol $line"
  if [ "$nviol" -gt 0 ]; then python3 tools/keep_seed.py $p $nv $p "quick tier reports VIOLATION; first: $line" ${p}${ROUND}/$v; fi
done; done

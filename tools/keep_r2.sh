#!/bin/sh
# keep_r2.sh <PROP>...: for round-2 seeds in /tmp/seed/out/<PROP>r2/{A,B} (already confirmed by confirm_seed.sh): run the quick check
# with the patch applied and file the seed as seeded/<PROP>-C|D when it is reported. Never run concurrently with other checks.
cd /verif
for p in "$@"; do i=0; for v in A B; do nv=$(echo "C D" | cut -d' ' -f$((i+1))); i=$((i+1))
  [ -f /tmp/seed/out/${p}r2/$v/confirm.txt ] || { echo "$p-$nv: not confirmed yet"; continue; }
  out=$(sh tools/try_seed.sh /tmp/seed/out/${p}r2/$v/patch.diff $p 2>&1)
  line=$(echo "$out" | grep -a -m1 "unlisted failure\|regression\|uncompil" | cut -c1-260); nviol=$(echo "$out" | grep -ac VIOLATION)
  echo "$p-$nv: viol=$nviol $line"
  if [ "$nviol" -gt 0 ]; then python3 tools/keep_seed.py $p $nv $p "quick tier reports VIOLATION; first: $line" ${p}r2/$v; fi
done; done
git -C /repo status --short

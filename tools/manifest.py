#!/usr/bin/env python3
"""Regenerates /verif/MANIFEST.json from the table below (keeps it schema-valid at every commit)."""
import json, os, subprocess
ROOT = os.path.dirname(os.path.dirname(os.path.abspath(__file__)))
ALL = ['C%02d' % i for i in range(1, 21)]

# property -> (technique, level text, level note, design ref)
CLAIMED = {
 'C08': ('rapidcheck generated operands (directed ties / near-limit) + exhaustive 8/16-bit operand planes vs exact rounded quotient in 128-bit arithmetic',
         'generated-input search: every 8-bit operand plane exhaustively on each change (16-bit planes in the thorough tier), 32/64-bit planes by boundary-directed and random generation; each case compared with the exactly rounded rational quotient and, for the other operators, with the built-in expression; UB inside CNL is a failure (UBSan traps caught in-process). Not a proof outside the enumerated planes.',
         'trusts GCC 12 / Clang 14 code generation at -O1, UBSan for UB visibility, __int128 arithmetic as the exact oracle; five listed known findings (rounding bias / negation / abs overflow) are excluded by cause, see known_findings.jsonl',
         'DESIGN.md section 5 C08'),
 'C18': ('exhaustive 8/16(/32)-bit enumeration + rapidcheck boundary/pattern/random 64/128-bit values vs naive bit loops and libstdc++ <bit>, under GCC and Clang',
         'every function of cnl/bit.h, cnl/numeric.h and used_digits on every 8- and 16-bit value (32-bit in the thorough tier), every rotation count 0..2w, and generated 64/128-bit values; two independent oracles (naive loops on unsigned __int128, libstdc++); both compilers because they select different code paths; UB (ctz/clz of zero, shift by width) is caught by UBSan traps in-process',
         'trusts libstdc++ <bit> only as a cross-check of the naive oracle; GCC 12 / Clang 14, x86-64',
         'DESIGN.md section 5 C18'),
 'C19': ('exhaustive enumeration of <=16(/32)-digit operands + rapidcheck perfect-square-directed generation for wider types; validity predicate r^2 <= x < (r+1)^2 in GMP',
         'floor-square-root validity predicate (no reference sqrt) on every value of the narrow types and on generated squares, squares+-1, boundary and random values of 64/128-bit, elastic_integer, wide_integer and scaled_integer operands; result digit/exponent checked statically; termination as a loop-iteration bound through hook H3',
         'termination is approximated by "within 1e5 iterations of the instrumented loops"; values enter and leave wide types through their limb arrays, not CNL arithmetic',
         'DESIGN.md section 5 C19'),
 'C16': ('exhaustive enumeration of 8/16-bit fractions and of small (quick) / all 8-bit (thorough) fraction pairs + rapidcheck proportional/neighbour pairs for wider components vs GMP rationals',
         'every int8 and int16 fraction for reduce/canonical/conversion, every pair with components in [-8,7] (all 2^32 int8 pairs in the thorough tier) for the six comparisons and hash-of-equal, generated pairs elsewhere; exact rational oracle; stated preconditions (cross products fit, std::gcd domain) evaluated on exact values',
         'GMP mpq as the rational oracle; conversion to floating point compared with the stated expression static_cast<F>(n)/static_cast<F>(d)',
         'DESIGN.md section 5 C16'),
 'C06': ('rapidcheck limit-directed operands + exhaustive 8-bit operand planes vs exact GMP results, over 100 operand type pairs, 3 tags, 2 routes and both detection paths on both compilers (hook H1)',
         'for each (op, operand types, tag, route, path) site: overflow must be signalled/saturated iff the exact integer result leaves numeric_limits of the built-in result type, on the correct side, else the exact value is returned; every 8-bit x 8-bit plane for every op is enumerated, wider planes are searched with operands constructed to land on max, max+1, lowest, lowest-1',
         'trapping is observed through hook H2 (abort hook + longjmp); nine listed known findings are excluded by operand-defined cause cells (mixed signedness with a negative operand split into the cells that fail, minus on sub-int operands, ...), see known_findings.jsonl; overflow_integer over wrapper representations (wide_integer<31>, ...) is covered by c06::WrapRep',
         'DESIGN.md section 5 C06'),
 'C07': ('same sites as C06 driven over all operand values (extremes, every shift count, NaN/inf); invariant oracle: no UBSan trap, signal, internal error or failed assertion',
         'totality: every operand value other than zero divisors and negative shift counts must either return or raise the tag\'s own signal; UB is made visible by UBSan traps (signed overflow, shift, division, float-cast) and SIGFPE, internal errors by hook H2; both detection paths forced on both compilers',
         'UB that no sanitizer check covers at -O1 is out of reach; six listed known findings (oversized shift of 0, lowest()/-1 in the portable multiply test, NaN and rounded-max float sources, neutral polarity on the intrinsic path)',
         'DESIGN.md section 5 C07'),
 'C01': ('rapidcheck magnitude-fitted operands + exhaustive 8-bit rep planes over a generated matrix of scaled_integer instantiations vs GMP rationals',
         'value = rep x radix^exponent computed exactly; for every (rep pair, exponent pair, radix, op) site the result exponent and the exact value of the result are compared; operands are shaped so that the stated preconditions (aligned operands and exact result fit) hold in most cases; 8-bit x 8-bit planes are exhaustive',
         'quick tier runs a fixed checkerboard half of the 8x8x7 matrix, thorough all of it plus 128-bit, wrapper reps and exponents to +-70; ranges of wrapper reps come from their numeric_limits',
         'DESIGN.md section 5 C01'),
 'C02': ('rapidcheck directed divisors (+-1, +-2^k, k*b+-1, corners) + exhaustive 8-bit planes vs GMP integer division identities and exact rational quotient',
         'for / and %: exponents, truncated quotient of the reps, (a/b)*b + a%b == a, remainder sign and magnitude; for quotient(): truncation toward zero with error below one unit of the result and no UB at the corner values; both over a generated matrix of operand instantiations',
         'mixed signedness only where the usual arithmetic conversions keep both values, min / -1 excluded (as stated); one listed known finding (quotient of an unsigned dividend by a negative divisor)',
         'DESIGN.md section 5 C02'),
 'C03': ('rapidcheck correlated operand pairs (same value expressed at the other exponent, +-1 unit) + exhaustive 8-bit planes vs the order of exact GMP rationals, in both operand orders',
         'all six operators in both orders must equal the order of the denoted values (or, for built-in reps of different signedness with an unsigned common type, the built-in comparison of the aligned reps, as the statement requires) over scaled, elastic and wide families; number-vs-built-in comparisons are checked against the same comparison with the built-in wrapped in the CNL type',
         'two listed known findings (wide_integer pairs of different types when an operand is not representable in the other type; built-in operand whose alignment overflows against an elastic-rep number); 32 wide pairings that do not compile on the pinned tree are listed in uncompilable_allow.json',
         'DESIGN.md section 5 C03'),
 'C04': ('rapidcheck destination-fitted sources + exhaustive 8/16-bit source reps vs GMP truncation and MPFR correct rounding',
         'for every (source type, destination type) site the destination rep must equal the exact value when representable, else trunc toward zero at the destination resolution; conversion to float/double/long double is compared bit-for-bit with MPFR round-to-nearest and the round trip is checked; from_rep/to_rep and wrap/unwrap inverses over nested wrappers',
         'one listed known finding (left shift performed in the source type), which the suite itself pins with a static_assert; NaN/inf/out-of-range sources are outside the quantifier',
         'DESIGN.md section 5 C04'),
 'C05': ('rapidcheck operands from the declared digit range with directed extremes and oversized divisors + exhaustive small-digit operand planes vs GMP integers',
         'result value equals the exact integer result and lies within the range its own digits_v / numeric_limits declare, for + - * / % unary minus, comparisons and constant shifts over pairwise digit counts, signedness mixes and narrowest types including 128-bit and wide_integer storage',
         'one listed known finding (>> of a negative value can floor to one below the symmetric lowest); the / % operand-narrowing defect was repaired (fix: commit d438fc9) and is kept as a regression',
         'DESIGN.md section 5 C05'),
 'C09': ('rapidcheck tie/near-tie/limit-directed sources (k + f destination units moved by 0..2 ulps) + exhaustive 8/16-bit source reps vs exact GMP rounding of the bit-exact source value',
         'for every (source, destination, rounding tag, form) site the destination rep must be the multiple of the destination resolution the mode selects from the exact source value; float, double and long double sources are decoded bit-exactly and never touched by floating-point arithmetic in the oracle; conversions that lose no digits must be exact under every mode',
         'six listed known findings, each an operand-defined cause region (bias sum not representable in the float type, negative float -> scaled truncation, bias overflow in the source rep, ...); 18 conversion forms that do not compile on the pinned tree are listed in uncompilable_allow.json; static_number -> static_number chains are left to C11',
         'DESIGN.md section 5 C09'),
 'C12': ('differential execution: exhaustive 2^16 operand pairs for every 8-bit kernel (33 operators x 7 wrapper nestings) + rapidcheck boundary/pattern/random operands for 16/32/64-bit, vs the built-in expression; mixed-exponent and documentation kernels vs hand-written shift-and-operate code',
         'value and decltype of unwrap(W(a) op W(b)) against a op b for every operator, nesting and rep width, also with a built-in operand on either side; compound assignment against T(x op y); ++/-- against +-1; scaled_integer kernels with different exponents (+ - & | ^, compound forms, comparisons) and the four documentation kernels against integer reference code; inputs for which the built-in expression is undefined are discarded on exact values',
         'equivalence by execution, not on compiled IR, and not all 2^64 pairs of 32-bit operands (stated in DESIGN section 6); ++/-- on rounding_integer<R, native_rounding_tag> nestings are ill-formed on the pinned tree and are excluded from those kernels',
         'DESIGN.md section 5 C12'),
 'C10': ('rapidcheck limb-structured and division-directed operands over 15 (quick) / 27 (thorough) wide_integer instantiations vs GMP reduced to the storage width',
         'every listed operator, comparison, increment, conversion to/from built-in integers and floating point, decimal text and numeric_limits is compared with GMP arithmetic on the value read from the limb array, reduced to two\'s complement of the storage width; limb types of 8/16/32/64 bits and limb counts from 2 to 256 (incl. Karatsuba sizes) make results independent of the limb split',
         'two listed known findings (Karatsuba multiply with a non-power-of-two limb count, vendored uintwide_t; decimal text of the most negative single-word value); every width 65..331 is swept in the thorough tier (a third of them in the quick tier); operator~ of multi-word types is ill-formed on the pinned tree and excluded; to-float is checked as faithful rounding (the statement does not promise more); nondeterministic failures count when they reproduce at least once in three replays',
         'DESIGN.md section 5 C10'),
 'C17': ('exhaustive float exponent x 512-point mantissa lattice + rapidcheck ratios/decimal/dyadic/near-limit/random inputs + a replayed regression corpus of 108k inputs, vs GMP rationals on the bit-exact input; loop-iteration bound through hook H3',
         'termination (iteration bound), positive denominator, sign, range, exactness for representable ratios and the stated error bound otherwise, for nine (component type, float type) pairs through the constructor and make_fraction; strict where the pinned implementation can be held to the property (integers; ratios when the float type has >= D+16 digits), and a regression corpus of inputs that currently satisfy the property inside the region where it cannot',
         'one broad listed known finding: outside the strict regions make_fraction fails often (assertions, UB, wrong results, non-termination); there the check only protects the corpus inputs, so new defects confined to other inputs of that region are not seen. Termination is "within 1e5 loop iterations"',
         'DESIGN.md section 5 C17'),
 'C13': ('rapidcheck (value, buffer length, base) triples biased to tiny / capacity / exact-fit lengths + exhaustive value x length planes of 8-bit (quick) and 16-bit (thorough) reps, with pattern-filled guard zones around the buffer',
         'no byte outside [first,last) may change, success returns first < p <= last with [p,last) untouched, failure returns {last, value_too_large}, no assertion / trap / signal / unbounded loop, and to_chars_static, to_string, operator<< and to_chars with a buffer of to_chars_capacity always succeed; over built-in integers in bases 2..36, 128-bit, wide, wrapper and scaled_integer types with exponents -70..70 and radix 2/3/8/10',
         'out-of-bounds reads are not visible to guard zones; one listed known finding (most negative int/long/__int128/wide_integer and wrappers over them, narrowed to its assertion); three defects found here were repaired (fix: commits 4f86af0, 1acdda9, 2f5ff9f) and are replayed as regressions',
         'DESIGN.md section 5 C13'),
 'C14': ('the C13 cases on which to_chars succeeds, judged by a text oracle: GMP numerals for integers, an exact decimal parser and rational bounds for scaled_integer',
         'integer text must equal the canonical numeral of the value in the requested base; scaled_integer text must parse by the stated grammar, carry the sign of the value, not exceed its magnitude, stay within one unit of the last printed digit (plus 1e-16 relative for the 64-bit significand) and be exact whenever the value has <= 18 significant digits and its expansion fits the buffer; the fixed-capacity variants must print what to_chars prints into a buffer of the static capacity',
         'two listed known findings (most negative built-ins; positive-exponent reps above the int64 significand headroom lose low digits); the layout lengths used by the exactness rule mirror how CNL lays text out (no leading zero before the point, d.ddde[-]n)',
         'DESIGN.md section 5 C14'),
 'C20': ('exhaustive 8/16-bit exp2 inputs per exponent + 32-bit lattice, integer-neighbour and representable-range generation, and one case per (constant, Rep, Exponent) instantiation, vs MPFR at 256-320 bits',
         'rep(exp2(x)) must be within one of floor(2^x / 2^E) whenever that is representable and exact for integral x; every <numbers> constant of every representable (Rep, Exponent) format with 8..64-bit reps must be within one unit of the true constant (MPFR const_pi, exp, log, sqrt, const_euler)',
         'one listed known finding (8/16-bit and unsigned reps are off by 2..3 units for some inputs); the uint32 always-one defect was repaired (fix: commit 74de685) and is replayed as a regression; positive exponents are outside the stated quantifier (at least one integer bit, fractional formats)',
         'DESIGN.md section 5 C20'),
 'C15': ('generated programs: a seeded emitter writes translation units of literal tokens and constant-driven factory calls with their meaning computed by Python integers / Fractions; the compiled program compares value, digits, exponent and radix; rapidcheck grammar-generated tokens for the run-time parser',
         'every emitted token (_c, _wide, _cnl, _cnl2; bases 2/8/10/16; chunk-boundary lengths; separators incl. inside the fraction; negated) must denote exactly its Python meaning, every boundary constant through make_elastic_integer / make_elastic_scaled_integer / make_scaled_integer / make_static_integer / make_static_number / CTAD must be held exactly with the promised digit count and exponent, and cnl::_impl::parse<T> must agree with GMP on generated well-formed tokens; a token that stops compiling is a violation',
         'four listed known findings (two of them token classes that do not compile on the pinned tree and are excluded by construction in the emitter, with compile witnesses); tokens differ per VERIF_SEED; Clang 14 has no CTAD for alias templates, so CTAD is exercised under GCC only',
         'DESIGN.md section 5 C15'),
 'C11': ('generated programs: a seeded emitter writes typed expression chains over static_number / static_integer leaves (plus fixed chains for multi-word storage and for the listed findings); rapidcheck draws leaf values from the declared range; each node is compared with an exact GMP replay of the chain',
         'node by node: exact value from exact children, the rounded rep quotient for /, the mode-rounded value at the destination resolution for narrowing construction; the CNL value must equal it, or the chain\'s overflow tag must signal (saturated: the bound on the side where the rounded result leaves the declared digits, and the chain continues from the bound; throwing / trapping: exception / abort, and evaluation stops there). A loud signal for a representable result is not counted as silently wrong',
         'seven listed known findings (five inherited from the layers: C05 floor shift, C08 division bias, C09 conversion bias, shift by >= digits, multiply-predicate bias; two of its own: << accepts -(2^digits), static_integer built from a positive-exponent static_number is unchecked); chains use + - * / % unary -, <<, ++/--, comparisons, construction and assignment; Narrowest = long does not compile on the pinned tree and is not generated; chains differ per VERIF_SEED except the fixed ones',
         'DESIGN.md section 5 C11'),
}

def main():
    hooks = subprocess.run(['git', '-C', '/repo', 'log', '--format=%h %s'], capture_output=True, text=True).stdout.splitlines()
    hook_commits = [l.split()[0] for l in hooks if 'verif hook' in l]
    checks = []
    for p in ALL:
        if p not in CLAIMED:
            continue
        tech, text, note, ref = CLAIMED[p]
        checks.append(dict(
            property_id=p,
            quick_cmd='python3 verif.py check %s --tier quick' % p,
            thorough_cmd='python3 verif.py check %s --tier thorough' % p,
            evidence_file='/verif/evidence/%s.json' % p,
            replay_cmd_template='python3 verif.py replay %s {path}' % p,
            engine='rc+enum+replay',
            level_claimed=dict(category='exploration', text=text, design_ref=ref),
            level_note=note, technique=tech))
    na = [dict(property_id=p, reason=NA.get(p, 'check not built yet in this revision of /verif (work in progress; see DESIGN.md section 8)')) for p in ALL if p not in CLAIMED]
    m = dict(
        version=1,
        setup_cmd='python3 verif.py setup',
        hooks=dict(guard='JOHNMCFARLANE_CNL_VERIF',
                   enable='every harness TU is compiled with -DJOHNMCFARLANE_CNL_VERIF -I/repo/include (verif.py: COMMON flags); -DJOHNMCFARLANE_CNL_VERIF_OVERFLOW_PATH=1|2 additionally selects the overflow-detection path',
                   baseline_off_cmd='sh /verif/baseline_off.sh',
                   source_commits=hook_commits[::-1], add_only=True),
        engines=[dict(name='fuzz', path='harness/fuzz_engine.cpp', serves_properties=['C07', 'C10', 'C13', 'C15', 'C17'],
                      kind_free_text='libFuzzer (clang -fsanitize=fuzzer,address,undefined with UBSan traps) over the same site tables: input bytes are decoded into (site, 64-bit words) and the site decodes the words into typed operands; the semantic oracle runs inside the target; a non-listed failure writes a replay file and aborts; used by the quick tier for short campaigns (-runs=40k..150k x 4 workers) and by the thorough tier for long ones'),
                 dict(name='generated-programs', path='vgen/C11.py, vgen/C15.py', serves_properties=['C11', 'C15'],
                      kind_free_text='seeded Python emitters write translation units (expression chains over static_number; literal tokens and factory calls) whose meaning is computed independently (exact rationals / Python integers); the compiled programs are the inputs'),
                 dict(name='rc+enum+replay', path='harness/engine.cpp', serves_properties=sorted(CLAIMED),
                      kind_free_text='rapidcheck search over 64-bit word vectors decoded into typed operands per site; exhaustive enumeration of small operand planes; single-case replay. Sites (oracles) in harness/props/*.h, instantiation matrices in vgen/*.py, driver verif.py')],
        checks=checks,
        notes='All checks rebuild their site TUs from /repo/include (object cache keyed by a hash of that tree). VERIF_SEED drives every random choice. Known findings: known_findings.jsonl (cause cells x symptom-specific classes; DESIGN.md 9.4); every run also replays corpus/<ID>.inregion.tsv.gz (inputs inside listed cause regions that satisfy the property on the pinned tree) and regress/<ID>/ (witnesses of repaired defects). Seeded defects used to test the checks: seeded/ (DESIGN.md 9.3). See DESIGN.md.',
        not_applicable=na)
    json.dump(m, open(os.path.join(ROOT, 'MANIFEST.json'), 'w'), indent=1)
    print('MANIFEST.json: %d checks, %d not_applicable' % (len(checks), len(na)))

NA = {}  # every listed property is claimed; nothing is not applicable to this technique
if __name__ == '__main__':
    main()

#!/usr/bin/env python3
"""Regenerates /verif/MANIFEST.json from the table below (keeps it schema-valid at every commit)."""
import json, os, subprocess
ROOT = os.path.dirname(os.path.dirname(os.path.abspath(__file__)))
ALL = ['C%02d' % i for i in range(1, 21)]

# property -> (technique, level text, level note, design ref)
CLAIMED = {
 'C08': ('rapidcheck generated operands (directed ties / near-limit) + exhaustive 8/16-bit operand planes vs exact rounded quotient in 128-bit arithmetic',
         'generated-input search: every 8-bit operand plane exhaustively on each change (16-bit planes in the thorough tier), 32/64-bit planes by boundary-directed and random generation; each case compared with the exactly rounded rational quotient and, for the other operators, with the built-in expression; UB inside CNL is a failure (UBSan traps caught in-process). Not a proof outside the enumerated planes.',
         'trusts GCC 12 / Clang 14 code generation at -O1, UBSan for UB visibility, __int128 arithmetic as the exact oracle; five listed known findings (rounding bias / negation / abs overflow) are excluded by cause, see known_findings.jsonl',
         'DESIGN.md section 5 C08'),
 'C18': ('exhaustive 8/16(/32)-bit enumeration + rapidcheck boundary/pattern/random 64/128-bit values vs naive bit loops and libstdc++ <bit>, under GCC and Clang',
         'every function of cnl/bit.h, cnl/numeric.h and used_digits on every 8- and 16-bit value (32-bit in the thorough tier), every rotation count 0..2w, and generated 64/128-bit values; two independent oracles (naive loops on unsigned __int128, libstdc++); both compilers because they select different code paths; UB (ctz/clz of zero, shift by width) is caught by UBSan traps in-process',
         'trusts libstdc++ <bit> only as a cross-check of the naive oracle; GCC 12 / Clang 14, x86-64',
         'DESIGN.md section 5 C18'),
 'C19': ('exhaustive enumeration of <=16(/32)-digit operands + rapidcheck perfect-square-directed generation for wider types; validity predicate r^2 <= x < (r+1)^2 in GMP',
         'floor-square-root validity predicate (no reference sqrt) on every value of the narrow types and on generated squares, squares+-1, boundary and random values of 64/128-bit, elastic_integer, wide_integer and scaled_integer operands; result digit/exponent checked statically; termination as a loop-iteration bound through hook H3',
         'termination is approximated by "within 1e5 iterations of the instrumented loops"; values enter and leave wide types through their limb arrays, not CNL arithmetic',
         'DESIGN.md section 5 C19'),
 'C16': ('exhaustive enumeration of 8/16-bit fractions and of small (quick) / all 8-bit (thorough) fraction pairs + rapidcheck proportional/neighbour pairs for wider components vs GMP rationals',
         'every int8 and int16 fraction for reduce/canonical/conversion, every pair with components in [-8,7] (all 2^32 int8 pairs in the thorough tier) for the six comparisons and hash-of-equal, generated pairs elsewhere; exact rational oracle; stated preconditions (cross products fit, std::gcd domain) evaluated on exact values',
         'GMP mpq as the rational oracle; conversion to floating point compared with the stated expression static_cast<F>(n)/static_cast<F>(d)',
         'DESIGN.md section 5 C16'),
 'C06': ('rapidcheck limit-directed operands + exhaustive 8-bit operand planes vs exact GMP results, over 100 operand type pairs, 3 tags, 2 routes and both detection paths on both compilers (hook H1)',
         'for each (op, operand types, tag, route, path) site: overflow must be signalled/saturated iff the exact integer result leaves numeric_limits of the built-in result type, on the correct side, else the exact value is returned; every 8-bit x 8-bit plane for every op is enumerated, wider planes are searched with operands constructed to land on max, max+1, lowest, lowest-1',
         'trapping is observed through hook H2 (abort hook + longjmp); eight listed known findings are excluded by operand-defined cause regions (mixed signedness with a negative operand, minus on sub-int operands, ...), see known_findings.jsonl',
         'DESIGN.md section 5 C06'),
 'C07': ('same sites as C06 driven over all operand values (extremes, every shift count, NaN/inf); invariant oracle: no UBSan trap, signal, internal error or failed assertion',
         'totality: every operand value other than zero divisors and negative shift counts must either return or raise the tag\'s own signal; UB is made visible by UBSan traps (signed overflow, shift, division, float-cast) and SIGFPE, internal errors by hook H2; both detection paths forced on both compilers',
         'UB that no sanitizer check covers at -O1 is out of reach; six listed known findings (oversized shift of 0, lowest()/-1 in the portable multiply test, NaN and rounded-max float sources, neutral polarity on the intrinsic path)',
         'DESIGN.md section 5 C07'),
}

def main():
    hooks = subprocess.run(['git', '-C', '/repo', 'log', '--format=%h %s'], capture_output=True, text=True).stdout.splitlines()
    hook_commits = [l.split()[0] for l in hooks if 'verif hook' in l]
    checks = []
    for p in ALL:
        if p not in CLAIMED:
            continue
        tech, text, note, ref = CLAIMED[p]
        checks.append(dict(
            property_id=p,
            quick_cmd='python3 verif.py check %s --tier quick' % p,
            thorough_cmd='python3 verif.py check %s --tier thorough' % p,
            evidence_file='/verif/evidence/%s.json' % p,
            replay_cmd_template='python3 verif.py replay %s {path}' % p,
            engine='rc+enum+replay',
            level_claimed=dict(category='exploration', text=text, design_ref=ref),
            level_note=note, technique=tech))
    na = [dict(property_id=p, reason=NA.get(p, 'check not built yet in this revision of /verif (work in progress; see DESIGN.md section 8)')) for p in ALL if p not in CLAIMED]
    m = dict(
        version=1,
        setup_cmd='python3 verif.py setup',
        hooks=dict(guard='JOHNMCFARLANE_CNL_VERIF',
                   enable='every harness TU is compiled with -DJOHNMCFARLANE_CNL_VERIF -I/repo/include (verif.py: COMMON flags); -DJOHNMCFARLANE_CNL_VERIF_OVERFLOW_PATH=1|2 additionally selects the overflow-detection path',
                   baseline_off_cmd='sh /verif/baseline_off.sh',
                   source_commits=hook_commits[::-1], add_only=True),
        engines=[dict(name='rc+enum+replay', path='harness/engine.cpp', serves_properties=sorted(CLAIMED),
                      kind_free_text='rapidcheck search over 64-bit word vectors decoded into typed operands per site; exhaustive enumeration of small operand planes; single-case replay. Sites (oracles) in harness/props/*.h, instantiation matrices in vgen/*.py, driver verif.py')],
        checks=checks,
        notes='All checks rebuild their site TUs from /repo/include (object cache keyed by a hash of that tree). VERIF_SEED drives every random choice. Known findings: known_findings.jsonl. See DESIGN.md.',
        not_applicable=na)
    json.dump(m, open(os.path.join(ROOT, 'MANIFEST.json'), 'w'), indent=1)
    print('MANIFEST.json: %d checks, %d not_applicable' % (len(checks), len(na)))

NA = {}
if __name__ == '__main__':
    main()

#!/usr/bin/env python3
"""keep_seed.py <PROP> <VARIANT> <detected_by> <detection note> [<src dir under /tmp/seed/out>]: file a confirmed seeded defect under
/verif/seeded/<PROP>-<VARIANT>/ (round-2 seeds: keep_seed.py C03 C C03 "..." C03r2/A)"""
import json, os, shutil, sys
prop, var, detected_by, note = sys.argv[1:5]
src = '/tmp/seed/out/' + (sys.argv[5] if len(sys.argv) > 5 else '%s/%s' % (prop, var))
dst = '/verif/seeded/%s-%s' % (prop, var)
os.makedirs(dst, exist_ok=True)
for f in ('patch.diff', 'demo.cpp', 'run.txt'):
    if os.path.exists(os.path.join(src, f)):
        shutil.copy(os.path.join(src, f), dst)
agent = {}
try:
    agent = json.load(open(os.path.join(src, 'meta.json')))
except Exception as e:
    agent = {'note': 'agent meta.json unreadable: %s' % e}
confirm = dict(l.strip().split('=', 1) for l in open(os.path.join(src, 'confirm.txt')) if '=' in l)
meta = dict(property=prop, variant=var, summary=agent.get('summary', ''), files=agent.get('files', []),
            needs=agent.get('needs', ''),
            confirmed_by_me=dict(
                how='tools/confirm_seed.sh in a scratch worktree of /repo: demo on the unchanged tree, git apply, demo with the patch, full suite build (ninja -k 0) and ctest',
                demo_unchanged_exit=confirm.get('demo_unchanged_exit'), demo_patched_exit=confirm.get('demo_patched_exit'),
                suite_build_failed_targets=confirm.get('build_failed_targets'), unexpected_failing_tests=confirm.get('unexpected_failing_tests')),
            detection=dict(checks=detected_by.split(','), result=note,
                           how='tools/try_seed.sh <patch> <PROP> (git -C /repo apply; verif.py check <PROP> --tier quick; git -C /repo checkout -- .)'))
json.dump(meta, open(os.path.join(dst, 'meta.json'), 'w'), indent=1)
print('kept', dst)

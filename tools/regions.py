#!/usr/bin/env python3
"""regions.py [ID...]: from evidence/<ID>.json print every oracle-side cause region with the number of cases inside it that passed
and failed on the last run. Regions where many cases pass are candidates for splitting into finer cells, so that the listed
known finding only covers cells that actually fail on the pinned tree (a defect seeded into a passing cell is then reported)."""
import json, sys, os, glob
root = os.path.dirname(os.path.dirname(os.path.abspath(__file__)))
ids = sys.argv[1:] or sorted(os.path.basename(f)[:-5] for f in glob.glob(os.path.join(root, 'evidence', 'C*.json')))
for i in ids:
    e = json.load(open(os.path.join(root, 'evidence', i + '.json')))
    for k, v in e['coverage'].get('cause_regions', {}).items():
        tot = v['passed'] + v['failed']
        print('%s  %-110s passed=%-9d failed=%-9d %s' % (i, k[:110], v['passed'], v['failed'], 'PURE-FAIL' if v['passed'] == 0 else 'pure-pass' if v['failed'] == 0 else 'mixed %.0f%% fail' % (100.0 * v['failed'] / tot)))

#!/usr/bin/env python3
"""Driver for the CNL property checks (DESIGN 2.5).

  verif.py setup
  verif.py check <ID> [--tier quick|thorough] [--keep-going]
  verif.py replay <ID> <replay.json>
  verif.py list <ID>

Environment: VERIF_SEED (int, default 1), VERIF_TIER, VERIF_REPO (default /repo), VERIF_JOBS (default 16),
VERIF_BUILD / VERIF_EVIDENCE (scratch build and evidence directories, used by seed trials only).
Exit: 0 held / only listed findings; 1 + "VIOLATION property=<id> replay=<path>"; 2 harness error (no verdict).
"""
import concurrent.futures as cf
import hashlib
import importlib
import json
import os
import re
import shutil
import subprocess
import sys
import time

ROOT = os.path.dirname(os.path.abspath(__file__))
REPO = os.environ.get('VERIF_REPO', '/repo')
BUILD = os.environ.get('VERIF_BUILD') or os.path.join(ROOT, 'build')
EVID = os.environ.get('VERIF_EVIDENCE') or os.path.join(ROOT, 'evidence')  # seed trials (tools/try_seed.sh) write elsewhere
HARNESS = os.path.join(ROOT, 'harness')
JOBS = int(os.environ.get('VERIF_JOBS', '16'))
GUARD = 'JOHNMCFARLANE_CNL_VERIF'

sys.path.insert(0, ROOT)


def log(*a):
    print(*a, file=sys.stderr, flush=True)


def sha(*parts):
    h = hashlib.sha256()
    for p in parts:
        h.update(p if isinstance(p, bytes) else p.encode())
        h.update(b'\0')
    return h.hexdigest()[:24]


_tree_hash = {}


def tree_hash(path):
    if path in _tree_hash:
        return _tree_hash[path]
    h = hashlib.sha256()
    for d, dirs, files in sorted(os.walk(path)):
        dirs.sort()
        for f in sorted(files):
            fp = os.path.join(d, f)
            h.update(os.path.relpath(fp, path).encode())
            with open(fp, 'rb') as fh:
                h.update(fh.read())
    _tree_hash[path] = h.hexdigest()[:24]
    return _tree_hash[path]


# ------------------------------------------------------------------------------------------------
# build configurations (DESIGN 2.2)

COMMON = ['-std=gnu++20', '-O1', '-g0', '-ffp-contract=off', '-D' + GUARD, '-I' + HARNESS,
          '-Wno-deprecated-declarations', '-w']
UB_GXX = ['-fsanitize=undefined,float-cast-overflow,float-divide-by-zero', '-fno-sanitize=vptr',
          '-fsanitize-undefined-trap-on-error']
UB_CLANG = ['-fsanitize=undefined,float-cast-overflow,float-divide-by-zero', '-fno-sanitize=vptr,function',
            '-fsanitize-trap=undefined,float-cast-overflow,float-divide-by-zero']

CFGS = {
    # name: (compiler, flags)
    'gxx': ('g++', UB_GXX),
    'clang': ('clang++', UB_CLANG),
    'gxx+portable': ('g++', UB_GXX + ['-D%s_OVERFLOW_PATH=2' % GUARD]),
    'clang+builtin': ('clang++', UB_CLANG + ['-D%s_OVERFLOW_PATH=1' % GUARD]),
    'gxx+builtin': ('g++', UB_GXX + ['-D%s_OVERFLOW_PATH=1' % GUARD]),
    'clang+portable': ('clang++', UB_CLANG + ['-D%s_OVERFLOW_PATH=2' % GUARD]),
    # libFuzzer + ASan + UBSan(trap) builds of the same site TUs (engine: harness/fuzz_engine.cpp)
    'fuzz': ('clang++', ['-fsanitize=fuzzer-no-link,address,undefined,float-cast-overflow,float-divide-by-zero', '-fno-sanitize=vptr,function',
                         '-fsanitize-trap=undefined,float-cast-overflow,float-divide-by-zero', '-DVF_FUZZ_HEAP']),
    # no UB instrumentation (for tests where the sanitizer itself would change floating-point results etc.)
    'gxx-plain': ('g++', []),
    # diagnostic builds (replay): reports instead of traps
    'gxx-diag': ('g++', ['-fsanitize=undefined,float-cast-overflow', '-fno-sanitize=vptr', '-fno-sanitize-recover=all', '-g']),
}
LIBS = ['-lrapidcheck', '-lgmpxx', '-lgmp', '-lmpfr']


def cfg_cmd(cfg):
    cc, fl = CFGS[cfg]
    return [cc] + COMMON + fl + ['-I' + os.path.join(REPO, 'include')]


def run(cmd, **kw):
    return subprocess.run(cmd, stdout=subprocess.PIPE, stderr=subprocess.STDOUT, text=True, **kw)


def harness_hash():
    return tree_hash(HARNESS)


def corpus_stamp(prop, units):
    """what the words of an in-region corpus line mean depends on the site decoders: shared harness headers, the property's own
    header(s) and its plan generator. A corpus harvested under another stamp is stale and is not replayed."""
    files = [os.path.join(HARNESS, f) for f in ('core.h', 'cnlval.h', 'scaledval.h', 'floatval.h', 'sweep.h')]
    files += sorted(set(os.path.join(HARNESS, u.header) for u in units))
    mods, todo = set(), [prop]
    while todo:  # the plan module and the vgen modules it imports (C14 takes its sites from C13, C07 from C06)
        m = todo.pop()
        if m in mods or not os.path.exists(os.path.join(ROOT, 'vgen', m + '.py')):
            continue
        mods.add(m)
        todo += re.findall(r'^from \.(\w+) import', open(os.path.join(ROOT, 'vgen', m + '.py')).read(), re.M)
    files += [os.path.join(ROOT, 'vgen', m + '.py') for m in sorted(mods)]
    return sha(*[open(f).read() for f in files if os.path.exists(f)])[:16]


def engine_obj():
    """rapidcheck engine: never sees CNL, compiled once per harness version."""
    os.makedirs(BUILD, exist_ok=True)
    src = os.path.join(HARNESS, 'engine.cpp')
    key = sha(open(src).read(), open(os.path.join(HARNESS, 'core.h')).read())
    obj = os.path.join(BUILD, 'engine-%s.o' % key)
    if not os.path.exists(obj):
        t = time.time()
        r = run(['g++', '-std=gnu++20', '-O1', '-g0', '-w', '-I' + HARNESS, '-c', src, '-o', obj + '.tmp'])
        if r.returncode != 0:
            raise HarnessError('engine compile failed:\n' + r.stdout[-4000:])
        os.replace(obj + '.tmp', obj)
        log('[build] engine.o %.1fs' % (time.time() - t))
    return obj


def fuzz_engine_obj():
    os.makedirs(BUILD, exist_ok=True)
    src = os.path.join(HARNESS, 'fuzz_engine.cpp')
    key = sha(open(src).read(), open(os.path.join(HARNESS, 'core.h')).read())
    obj = os.path.join(BUILD, 'fuzz-engine-%s.o' % key)
    if not os.path.exists(obj):
        r = run(['clang++', '-std=gnu++20', '-O1', '-g0', '-w', '-I' + HARNESS, '-fsanitize=fuzzer-no-link,address', '-c', src, '-o', obj + '.tmp'])
        if r.returncode != 0:
            raise HarnessError('fuzz engine compile failed:\n' + r.stdout[-4000:])
        os.replace(obj + '.tmp', obj)
    return obj


class HarnessError(Exception):
    pass


class Unit:
    """One binary: a list of site registrations compiled under one configuration."""

    def __init__(self, name, cfg, header, regs, rc_cases=0, words=16, enum_max=0, chunk=40, extra_flags=(),
                 tick_limit=None, prelude=''):
        self.name, self.cfg, self.header, self.regs = name, cfg, header, list(regs)
        self.rc_cases, self.words, self.enum_max, self.chunk = rc_cases, words, enum_max, chunk
        self.extra_flags = list(extra_flags)
        self.tick_limit = tick_limit
        self.prelude = prelude
        self.binary = None
        self.skipped = []  # registrations that do not compile on this tree
        self.skip_errors = {}

    def tu_sources(self):
        out = []
        for i in range(0, len(self.regs), self.chunk):
            body = '\n'.join('    %s;' % r for r in self.regs[i:i + self.chunk])
            out.append('#include "%s"\n%s\nstatic void vf_reg()\n{\n%s\n}\nVF_REGISTER(vf_reg)\n' % (self.header, self.prelude, body))
        return out


def compile_tu(cfg, src_text, extra_flags, tag):
    key = sha(' '.join(cfg_cmd(cfg) + list(extra_flags)), src_text, tree_hash(os.path.join(REPO, 'include')), harness_hash())
    obj = os.path.join(BUILD, 'obj', key + '.o')
    if os.path.exists(obj):
        return obj, None
    os.makedirs(os.path.dirname(obj), exist_ok=True)
    src = os.path.join(BUILD, 'obj', key + '.cpp')
    with open(src, 'w') as f:
        f.write(src_text)
    r = run(cfg_cmd(cfg) + list(extra_flags) + ['-c', src, '-o', obj + '.tmp'])
    if r.returncode != 0:
        return None, r.stdout
    os.replace(obj + '.tmp', obj)
    return obj, None


def build_units(units):
    eng = engine_obj()
    t0 = time.time()
    jobs = []
    with cf.ThreadPoolExecutor(JOBS) as ex:
        for u in units:
            for i, s in enumerate(u.tu_sources()):
                jobs.append((u, i, s, ex.submit(compile_tu, u.cfg, s, u.extra_flags, '%s.%d' % (u.name, i))))
        objs = {}
        for u, i, s, fut in jobs:
            obj, err = fut.result()
            if obj is None:
                # bisect: which registrations do not compile? (never a violation, DESIGN 2.1)
                obj = bisect_tu(u, i, err)
            objs.setdefault(u.name, [])
            if obj:
                objs[u.name].append(obj)
    if units and all(u.regs and len(u.skipped) == len(u.regs) for u in units):
        raise HarnessError('nothing in any unit compiles:\n%s' % getattr(units[0], 'last_compile_error', ''))
    for u in units:
        key = sha(*(objs[u.name] + [fuzz_engine_obj() if u.cfg == 'fuzz' else eng, u.cfg]))
        binp = os.path.join(BUILD, 'bin', '%s-%s' % (u.name, key))
        if not os.path.exists(binp):
            os.makedirs(os.path.dirname(binp), exist_ok=True)
            cc = CFGS[u.cfg][0]
            link_flags = [f for f in CFGS[u.cfg][1] if f.startswith('-fsanitize')]
            if u.cfg == 'fuzz':
                r = run([cc] + [o for o in objs[u.name] if o] + [fuzz_engine_obj(), '-fsanitize=fuzzer,address,undefined'] + [l for l in LIBS if 'rapidcheck' not in l] + ['-o', binp + '.tmp'])
            else:
                r = run([cc] + [o for o in objs[u.name] if o] + [eng] + link_flags + LIBS + ['-o', binp + '.tmp'])
            if r.returncode != 0:
                raise HarnessError('link failed for %s:\n%s' % (u.name, r.stdout[-3000:]))
            os.replace(binp + '.tmp', binp)
        u.binary = binp
    log('[build] %d units in %.1fs' % (len(units), time.time() - t0))


def first_error_line(out):
    for l in out.splitlines():
        if 'error' in l:
            return l.strip()[:400]
    return out.strip()[:400]


def load_allow(prop):
    p = os.path.join(ROOT, 'uncompilable_allow.json')
    if os.path.exists(p):
        return set(json.load(open(p)).get(prop, []))
    return set()


def bisect_tu(u, i, err):
    regs = u.regs[i * u.chunk:(i + 1) * u.chunk]
    log('[build] %s TU %d failed to compile; testing %d registrations one by one' % (u.name, i, len(regs)))
    good = []

    def one(r):
        src = '#include "%s"\n%s\nstatic void vf_reg()\n{\n    %s;\n}\nVF_REGISTER(vf_reg)\n' % (u.header, u.prelude, r)
        fn = os.path.join(BUILD, 'obj', 'bis-' + sha(src) + '.cpp')
        with open(fn, 'w') as f:
            f.write(src)
        rr = run(cfg_cmd(u.cfg) + u.extra_flags + ['-fsyntax-only', fn])
        os.unlink(fn)
        return rr.returncode == 0, rr.stdout

    with cf.ThreadPoolExecutor(JOBS) as ex:
        res = list(ex.map(one, regs))
    first_err = None
    for r, (ok, out) in zip(regs, res):
        if ok:
            good.append(r)
        else:
            u.skipped.append(r)
            u.skip_errors[r] = first_error_line(out)
            first_err = first_err or out
    if not good:
        if len(u.skipped) == len(u.regs):
            # every registration of this unit fails to compile. A change to /repo can do that to one unit (a static_assert of the
            # oracle on a result type, say): the registrations are then reported one by one through the allowlist rule
            # (instantiation-does-not-compile). Only if *no* unit of the plan compiles is it treated as a broken harness (build_units).
            u.last_compile_error = (first_err or err)[-3000:]
            log('[build] nothing in %s compiles' % u.name)
        return None
    body = '\n'.join('    %s;' % r for r in good)
    src = '#include "%s"\n%s\nstatic void vf_reg()\n{\n%s\n}\nVF_REGISTER(vf_reg)\n' % (u.header, u.prelude, body)
    obj, err2 = compile_tu(u.cfg, src, u.extra_flags, u.name)
    if obj is None:
        raise HarnessError('TU of %s still fails after bisection:\n%s' % (u.name, err2[-3000:]))
    return obj


# ------------------------------------------------------------------------------------------------
# known findings

def load_known(prop):
    """known_findings.jsonl: one JSON object per line.
    finding: {"kind":"finding","id":..,"property":..,"site_regex":..,"class_regex":..,"witness":{...},"what":..,"root_cause":..}
    fixed:   {"kind":"fixed","property":..,"commit":..,"what":..}   (suppresses nothing)"""
    out = []
    p = os.path.join(ROOT, 'known_findings.jsonl')
    if os.path.exists(p):
        for line in open(p):
            line = line.strip()
            if not line or line.startswith('#'):
                continue
            j = json.loads(line)
            if j.get('property') == prop and j.get('kind') == 'finding':
                out.append(j)
    return out


def write_known_tsv(prop, known):
    os.makedirs(BUILD, exist_ok=True)
    p = os.path.join(BUILD, 'known-%s.tsv' % prop)
    with open(p, 'w') as f:
        for k in known:
            f.write('%s\t%s\t%s\n' % (k['id'], k['site_regex'], k['class_regex']))
    return p


# ------------------------------------------------------------------------------------------------
# running

def run_engine(u, mode, out, known_tsv, seed, extra):
    cmd = [u.binary, mode, '--out', out, '--known', known_tsv, '--seed', str(seed)] + extra
    if u.tick_limit:
        cmd += ['--tick-limit', str(u.tick_limit)]
    t = time.time()
    r = run(cmd)
    dt = time.time() - t
    if r.returncode not in (0, 1) or not os.path.exists(out):
        raise HarnessError('engine %s %s crashed (rc=%s):\n%s' % (u.name, mode, r.returncode, r.stdout[-3000:]))
    j = json.load(open(out))
    j['_unit'] = u.name
    j['_cfg'] = u.cfg
    j['_wall'] = dt
    j['_binary'] = u.binary
    return j


def run_fuzz(u, ctx, runs, workers=4, only=None, max_len=514):
    """One libFuzzer campaign per worker on unit u (cfg 'fuzz'); returns an extra-result dict (see check())."""
    prop = u.name.split('-')[0]
    res = dict(name=u.name, cfg='fuzz', binary=u.binary, evaluations=0, distinct_nontrivial=0, labels={}, excluded={}, samples=[], failures=[],
               note='libFuzzer -runs=%d x %d workers, ASan + UBSan(trap), structure-aware decode of (site, words)' % (runs, workers))
    seed_corpus = os.path.join(ROOT, 'corpus', prop, 'fuzz')

    def one(k):
        wd = os.path.join(ctx['outdir'], 'fuzz-%s-%d' % (u.name, k))
        os.makedirs(os.path.join(wd, 'corpus'))
        env = dict(os.environ, VERIF_FUZZ_OUT=wd, VERIF_KNOWN=ctx['known_tsv'], ASAN_OPTIONS='detect_leaks=0:abort_on_error=1:symbolize=0')
        if only:
            env['VERIF_FUZZ_ONLY'] = only
        if u.tick_limit:
            env['VERIF_TICK_LIMIT'] = str(u.tick_limit)
        seed = (ctx['seed'] * 1000003 + k * 7919 + 1) % (2 ** 31 - 1) or 1
        cmd = [u.binary, '-runs=%d' % runs, '-seed=%d' % seed, '-max_len=%d' % max_len, '-artifact_prefix=' + wd + '/', '-print_final_stats=0',
               '-timeout=60', os.path.join(wd, 'corpus')]
        if os.path.isdir(seed_corpus):
            cmd.append(seed_corpus)
        r = subprocess.run(cmd, stdout=subprocess.PIPE, stderr=subprocess.STDOUT, text=True, errors='replace', env=env)
        return wd, r

    with cf.ThreadPoolExecutor(workers) as ex:
        outs = list(ex.map(one, range(workers)))
    for wd, r in outs:
        sp = os.path.join(wd, 'stats.json')
        if os.path.exists(sp):
            st = json.load(open(sp))
            res['evaluations'] += st['executions']
            res['distinct_nontrivial'] += st['distinct_nontrivial']
            for k, v in st['labels'].items():
                res['labels'][k] = res['labels'].get(k, 0) + v
            for k, v in st['excluded_by_id'].items():
                e = res['excluded'].setdefault(k, dict(hits=0, example='libFuzzer'))
                e['hits'] += v
            res['samples'] += [dict(site='fuzz', cfg='fuzz', case=x) for x in st['samples'][:2]]
        fails = sorted(f for f in os.listdir(wd) if f.startswith('fail-'))
        crashes = sorted(f for f in os.listdir(wd) if f.startswith('crash-') or f.startswith('leak-'))
        for f in fails:
            j = json.load(open(os.path.join(wd, f)))
            res['failures'].append(dict(site=j['site'], **{'class': j['class']}, msg=j['msg'], desc=j['desc'], words=j['words']))
        if crashes and not fails:
            # a sanitizer report (memory error): the saved input is the reproducible unit
            art = os.path.join(EVID, 'replay', '%s-fuzz-%s' % (prop, crashes[0]))
            os.makedirs(os.path.dirname(art), exist_ok=True)
            shutil.copy(os.path.join(wd, crashes[0]), art)
            tail = [l for l in r.stdout.splitlines() if 'ERROR' in l or 'SUMMARY' in l][:3]
            reproduced = sum(subprocess.run([u.binary, art], stdout=subprocess.DEVNULL, stderr=subprocess.DEVNULL,
                                            env=dict(os.environ, VERIF_KNOWN=ctx['known_tsv'], VERIF_FUZZ_OUT=wd, ASAN_OPTIONS='detect_leaks=0')).returncode != 0 for _ in range(3))
            res['failures'].append(dict(site='fuzz:' + u.name, **{'class': 'sanitizer-report'}, msg=' | '.join(tail)[:600], desc='libFuzzer artifact ' + crashes[0],
                                        file=art, confirmed=reproduced == 3))
    return res


def replay_once(binary, path, known_tsv):
    r = run([binary, 'replay', path, '--known', known_tsv])
    return r.returncode, r.stdout


def check(prop, tier, seed):
    t0 = time.time()
    mod = importlib.import_module('vgen.' + prop)
    plan = mod.plan(tier, seed)
    units = plan['units']
    known = load_known(prop)
    known_tsv = write_known_tsv(prop, known)
    outdir = os.path.join(BUILD, 'run', prop)
    shutil.rmtree(outdir, ignore_errors=True)
    os.makedirs(outdir)
    build_units(units)
    t_build = time.time() - t0

    violations = []  # (site, class, replay path)
    results = []
    corpus_stale = False

    # 1. regression replay tier
    regress_dir = os.path.join(ROOT, 'regress', prop)
    n_regress = 0
    if os.path.isdir(regress_dir):
        for fn in sorted(os.listdir(regress_dir)):
            if not fn.endswith('.json'):
                continue
            path = os.path.join(regress_dir, fn)
            j = json.load(open(path))
            found = False
            for u in units:
                if j.get('cfg') and j['cfg'] != u.cfg:
                    continue
                rc, out = replay_once(u.binary, path, known_tsv)
                if rc == 3:
                    continue
                found = True
                n_regress += 1
                if rc == 1:
                    violations.append((j['site'], 'regression:' + fn, path, out))
                break
            if not found:
                log('[regress] %s: site not in this tier' % fn)

    # 2. engines
    tasks = []
    with cf.ThreadPoolExecutor(JOBS) as ex:
        for u in units:
            nshard = max(1, plan.get('shards', {}).get(u.name, 1))
            if u.rc_cases:
                for k in range(nshard):
                    out = os.path.join(outdir, '%s-rc-%d.json' % (u.name, k))
                    tasks.append(ex.submit(run_engine, u, 'rc', out, known_tsv, seed,
                                           ['--cases', str(u.rc_cases), '--words', str(u.words), '--shard', '%d/%d' % (k, nshard)]))
            if u.enum_max:
                stripes = plan.get('stripes', {}).get(u.name, 1)
                for k in range(nshard if stripes == 1 else 1):
                    for s in range(stripes):
                        out = os.path.join(outdir, '%s-enum-%d-%d.json' % (u.name, k, s))
                        ex_args = ['--max-size', str(u.enum_max)]
                        if stripes > 1:
                            ex_args += ['--stripe', '%d/%d' % (s, stripes)]
                        else:
                            ex_args += ['--shard', '%d/%d' % (k, nshard)]
                        tasks.append(ex.submit(run_engine, u, 'enum', out, known_tsv, seed, ex_args))
        # in-region corpus (DESIGN 9.4): inputs inside listed cause regions that satisfied the property on the reference tree
        corpus_gz = os.path.join(ROOT, 'corpus', prop + '.inregion.tsv.gz')
        if os.path.exists(corpus_gz):
            import gzip
            by_cfg = {}
            stamp = None
            for l in gzip.open(corpus_gz, 'rt'):
                c, rest = l.split('\t', 1)
                if c == '#stamp':
                    stamp = rest.strip()
                    continue
                by_cfg.setdefault(c, []).append(rest)
            if stamp != corpus_stamp(prop, units):
                # the decoders changed since the harvest: the words no longer mean the inputs that were judged; re-run `verif.py harvest`
                log('[corpus] %s.inregion.tsv.gz is stale (harvested under another harness / plan version): not replayed' % prop)
                corpus_stale = True
                by_cfg = {}
            for c, ls in by_cfg.items():
                with open(os.path.join(outdir, 'inregion-%s.tsv' % c.replace('+', '_')), 'w') as fh:
                    fh.writelines(ls)
            for u in units:
                if u.cfg in by_cfg and u.cfg != 'fuzz' and u.binary:
                    out = os.path.join(outdir, '%s-corpus.json' % u.name)
                    tasks.append(ex.submit(run_engine, u, 'corpus', out, known_tsv, seed,
                                           ['--corpus', os.path.join(outdir, 'inregion-%s.tsv' % u.cfg.replace('+', '_'))]))
        for t in tasks:
            results.append(t.result())
    extra_results = []
    if 'extra' in plan:  # property-specific engines (fuzzers, generated programs)
        extra_results = plan['extra'](dict(outdir=outdir, known=known, known_tsv=known_tsv, seed=seed, tier=tier, units=units))

    # 3. merge
    ev = dict(evaluations=0, distinct_nontrivial=0, nontrivial=0, discards=0, labels={}, excluded={}, samples=[],
              sites=0, exhaustive_sites=[], configs=sorted(set(u.cfg for u in units)))
    site_rows = {}
    fail_rows = []
    for j in results:
        striped = j['mode'] == 'enum'
        for s in j['sites']:
            key = (j['_cfg'], s['site'], j['mode'])
            row = site_rows.setdefault(key, dict(cases=0, nontrivial=0, discard=0))
            row['cases'] += s['cases']
            row['nontrivial'] += s['distinct_nontrivial']
            row['discard'] += s['discard']
            ev['evaluations'] += s['cases']
            if j['mode'] == 'corpus':  # replayed inputs: counted as evaluations only (they may coincide with generated cases)
                ev['corpus_replayed'] = ev.get('corpus_replayed', 0) + s['cases']
            else:
                ev['distinct_nontrivial'] += s['distinct_nontrivial']
            ev['discards'] += s['discard']
            for k, v in s['labels'].items():
                ev['labels'][k] = ev['labels'].get(k, 0) + v
            for k, v in s['excluded'].items():
                e = ev['excluded'].setdefault(k, dict(hits=0, example=''))
                e['hits'] += v['hits']
                e['example'] = e['example'] or (s['site'] + ': ' + v['example'])
                for c, n in v.get('classes', {}).items():
                    cl = e.setdefault('classes', {})
                    if c in cl or len(cl) < 40:
                        cl[c] = cl.get(c, 0) + n
            for k, v in s.get('regions', {}).items():
                tail = s['site'].rsplit('|', 1)[-1]
                r = ev.setdefault('regions', {}).setdefault(k + (' @' + tail if tail in ('builtin', 'portable') else ''), [0, 0])
                r[0] += v[0]
                r[1] += v[1]
            if s['samples'] and len(ev['samples']) < 24 and (len(site_rows) % 7 == 1 or len(ev['samples']) < 4):
                ev['samples'].append(dict(site=s['site'], cfg=j['_cfg'], case=s['samples'][0]))
            if j['mode'] == 'enum' and s['cases']:
                ev['exhaustive_sites'].append(j['_cfg'] + ':' + s['site'])
            for f in s['failures']:
                fail_rows.append((j, s['site'], f))
    ev['exhaustive_sites'] = sorted(set(ev['exhaustive_sites']))
    ev['sites'] = len(set((k[0], k[1]) for k in site_rows))
    high_discard = sorted('%s:%s' % (k[0], k[1]) for k, r in site_rows.items() if k[2] == 'rc' and r['cases'] >= 50 and r['discard'] > 0.6 * r['cases'])
    for er in extra_results:
        ev['evaluations'] += er.get('evaluations', 0)
        ev['distinct_nontrivial'] += er.get('distinct_nontrivial', 0)
        for k, v in er.get('labels', {}).items():
            ev['labels'][k] = ev['labels'].get(k, 0) + v
        for k, v in er.get('excluded', {}).items():
            e = ev['excluded'].setdefault(k, dict(hits=0, example=''))
            e['hits'] += v['hits']
            e['example'] = e['example'] or v.get('example', '')
        ev['samples'] += er.get('samples', [])[:6]
        for f in er.get('failures', []):
            bin_for = ''
            if 'words' in f:
                for uu in units:
                    if uu.cfg != 'fuzz' and uu.binary and f['site'] in run([uu.binary, 'list']).stdout:
                        bin_for, cfg_for = uu.binary, uu.cfg
                        break
            fail_rows.append((dict(_cfg=(cfg_for if bin_for else er.get('cfg', '')), _binary=bin_for, _unit=er.get('name', '')), f['site'], f))
        ev.setdefault('engines', []).append({k: v for k, v in er.items() if k in ('name', 'cfg', 'evaluations', 'distinct_nontrivial', 'note', 'exhaustive')})

    # 4. unlisted failures -> replay files, confirmed 3x
    os.makedirs(os.path.join(EVID, 'replay'), exist_ok=True)
    seen_sig = set()
    for j, site, f in fail_rows:
        sig = (site, f['class'])
        if sig in seen_sig:
            continue
        seen_sig.add(sig)
        rep = dict(property=prop, site=site, cfg=j['_cfg'], unit=j['_unit'], **{'class': f['class']}, msg=f['msg'], desc=f['desc'], seed=seed, tier=tier)
        for k in ('words', 'enum_idx', 'file', 'program', 'corpus'):
            if k in f:
                rep[k] = f[k]
        h = sha(json.dumps(rep, sort_keys=True))[:12]
        path = os.path.join(EVID, 'replay', '%s-%s.json' % (prop, h))
        with open(path, 'w') as fh:
            json.dump(rep, fh, indent=1)
        confirmed = 0
        if j.get('_binary') and ('words' in f or 'enum_idx' in f):
            for _ in range(3):
                rc, out = replay_once(j['_binary'], path, known_tsv)
                confirmed += (rc == 1)
        else:
            confirmed = 3 if f.get('confirmed', True) else 0
        rep['reproduced'] = '%d/3' % confirmed
        if confirmed >= 1:  # a failure seen in the campaign and again on replay; nondeterministic ones (e.g. uninitialised reads) still count
            violations.append((site, f['class'], path, f['msg'] + ' | ' + f['desc']))
        else:
            log('[flaky] %s %s reproduced %d/3 times; not reported' % (site, f['class'], confirmed))
            ev.setdefault('flaky', []).append(dict(site=site, cls=f['class'], reproduced=confirmed))

    # 4b. instantiations that compiled on the reference tree but no longer do (DESIGN 2.1, 7)
    allow = load_allow(prop)
    for u in units:
        for r in u.skipped:
            key = ('gxx' if CFGS[u.cfg][0] == 'g++' else 'clang') + ':' + r
            if key in allow or r in allow:
                continue
            rep = dict(property=prop, site=r, cfg=u.cfg, unit=u.name, **{'class': 'instantiation-does-not-compile'},
                       msg=u.skip_errors.get(r, ''), desc='registration ' + r, seed=seed, tier=tier, registration=r, header=u.header)
            path = os.path.join(EVID, 'replay', '%s-%s.json' % (prop, sha(json.dumps(rep, sort_keys=True))[:12]))
            with open(path, 'w') as fh:
                json.dump(rep, fh, indent=1)
            violations.append((r, 'instantiation-does-not-compile', path, u.skip_errors.get(r, '')))

    # 5. known findings: witness must still fail
    kf_lines = []
    for k in known:
        hits = ev['excluded'].get(k['id'], {}).get('hits', 0)
        w = k.get('witness')
        still = None
        if w and ('words' in w or 'enum_idx' in w):
            wp = os.path.join(outdir, 'witness-%s.json' % k['id'])
            json.dump(w, open(wp, 'w'))
            for u in units:
                if w.get('cfg') and w['cfg'] != u.cfg:
                    continue
                rc, out = replay_once(u.binary, wp, known_tsv)
                if rc == 3:
                    continue
                still = (rc == 4)
                if rc == 1:
                    violations.append((w['site'], 'known-witness-changed-class:' + k['id'], wp, out))
                break
        elif w and 'registration' in w:
            src = '#include "%s"\nstatic void vf_reg()\n{\n    %s;\n}\nVF_REGISTER(vf_reg)\n' % (w['header'], w['registration'])
            fn = os.path.join(outdir, 'witness-%s.cpp' % k['id'])
            open(fn, 'w').write(src)
            rr = run(cfg_cmd(w.get('cfg', 'gxx')) + list(w.get('flags', [])) + ['-fsyntax-only', fn])
            still = rr.returncode != 0
        elif w and 'extra' in plan and 'witness' in plan:
            still = plan['witness'](k, dict(outdir=outdir, units=units, known_tsv=known_tsv))
        if still or hits > 0:
            kf_lines.append('KNOWN-FINDING: property=%s %s %s hits=%d' % (prop, k['id'], k['what'], hits))
        else:
            log('[known] %s: witness does not fail on this tree (hits=%d)' % (k['id'], hits))

    wall = time.time() - t0
    evidence = dict(
        property_id=prop, tier=tier, seed=seed, level='exploration',
        coverage=dict(
            evaluations=ev['evaluations'], distinct_nontrivial=ev['distinct_nontrivial'],
            rule=plan['rule'], samples=ev['samples'][:24],
            sites=ev['sites'], configs=ev['configs'], labels=ev['labels'],
            discards=ev['discards'], sites_discarding_over_60pct=high_discard,
            excluded_known={k: v for k, v in ev['excluded'].items()},
            # cases that fall into an oracle-side cause region (the key space of the known findings): how many of them satisfied
            # the property and how many failed on this run. A region with many passes hides little: only its failing classes are listed
            cause_regions={k: dict(passed=v[0], failed=v[1]) for k, v in sorted(ev.get('regions', {}).items())},
            exhaustive=False, exhaustive_subspaces=ev['exhaustive_sites'][:400], exhaustive_subspace_count=len(ev['exhaustive_sites']),
            uncompilable_skipped=sorted(set(sum([u.skipped for u in units], [])))[:200],
            regress_replayed=n_regress, inregion_corpus_replayed=ev.get('corpus_replayed', 0), inregion_corpus_stale=corpus_stale, build_s=round(t_build, 1), engines=ev.get('engines', []), flaky=ev.get('flaky', []),
        ),
        assumptions=plan.get('assumptions', []),
        wall_s=round(wall, 1), violations=len(violations))
    os.makedirs(EVID, exist_ok=True)
    with open(os.path.join(EVID, prop + '.json'), 'w') as f:
        json.dump(evidence, f, indent=1)
    for l in kf_lines:
        print(l)
    print('%s tier=%s seed=%d sites=%d evaluations=%d distinct_nontrivial=%d excluded_known=%d wall=%.0fs' % (
        prop, tier, seed, ev['sites'], ev['evaluations'], ev['distinct_nontrivial'], sum(v['hits'] for v in ev['excluded'].values()), wall))
    if high_discard:
        log('[warn] sites discarding >60%%: %s' % ', '.join(high_discard[:8]))
    for site, cls, path, msg in violations:
        print('  unlisted failure: site=%s class=%s :: %s' % (site, cls, msg.replace('\n', ' ')[:400]))
        print('VIOLATION property=%s replay=%s' % (prop, path))
    return 1 if violations else 0


def main():
    a = sys.argv[1:]
    if not a:
        print(__doc__)
        return 2
    seed = int(os.environ.get('VERIF_SEED', '1') or 1)
    if a[0] == 'setup':
        engine_obj()
        print('setup ok')
        return 0
    if a[0] == 'check':
        prop = a[1]
        tier = os.environ.get('VERIF_TIER', 'quick')
        if '--tier' in a:
            tier = a[a.index('--tier') + 1]
        try:
            return check(prop, tier, seed)
        except HarnessError as e:
            print('ERROR harness: %s' % e)
            return 2
    if a[0] == 'replay':
        prop, path = a[1], a[2]
        j = json.load(open(path))
        mod = importlib.import_module('vgen.' + prop)
        if 'file' in j:  # libFuzzer artifact: the saved input is the reproducible unit
            plan = mod.plan(j.get('tier', 'quick'), seed)
            fus = [u for u in plan['units'] if u.cfg == 'fuzz']
            build_units(fus)
            known_tsv = write_known_tsv(prop, load_known(prop))
            for u in fus:
                r = subprocess.run([u.binary, j['file']], stdout=subprocess.PIPE, stderr=subprocess.STDOUT, text=True, errors='replace',
                                   env=dict(os.environ, VERIF_KNOWN=known_tsv, VERIF_FUZZ_OUT=BUILD, ASAN_OPTIONS='detect_leaks=0'))
                print(r.stdout[-3000:])
                print('REPLAY %s' % ('FAIL' if r.returncode else 'PASS'))
                return 1 if r.returncode else 0
            return 2
        if 'registration' in j:
            src = '#include "%s"\nstatic void vf_reg()\n{\n    %s;\n}\nVF_REGISTER(vf_reg)\n' % (j['header'], j['registration'])
            fn = os.path.join(BUILD, 'replay-reg.cpp')
            os.makedirs(BUILD, exist_ok=True)
            open(fn, 'w').write(src)
            rr = run(cfg_cmd(j['cfg']) + ['-fsyntax-only', fn])
            print(rr.stdout[-3000:])
            print('REPLAY %s' % ('FAIL (does not compile)' if rr.returncode else 'PASS (compiles)'))
            return 1 if rr.returncode else 0
        if hasattr(mod, 'replay') and ('words' not in j and 'enum_idx' not in j):
            return mod.replay(j)
        plan = mod.plan(j.get('tier', 'thorough'), seed)
        units = [u for u in plan['units'] if not j.get('cfg') or u.cfg == j['cfg']]
        want = j['site']
        units = [u for u in units if any(True for r in u.regs)]
        build_units(units)
        known_tsv = write_known_tsv(prop, load_known(prop))
        for u in units:
            rc, out = replay_once(u.binary, path, known_tsv)
            if rc == 3:
                continue
            print(out)
            return 1 if rc in (1, 4) else 0
        print('site %s not found in any unit' % want)
        return 2
    if a[0] == 'allow':  # record the registrations that do not compile on the (unchanged) tree
        prop = a[1]
        mod = importlib.import_module('vgen.' + prop)
        keys = set()
        for tier in ('quick', 'thorough'):
            plan = mod.plan(tier, seed)
            build_units(plan['units'])
            for u in plan['units']:
                for r in u.skipped:
                    keys.add(('gxx' if CFGS[u.cfg][0] == 'g++' else 'clang') + ':' + r)
        p = os.path.join(ROOT, 'uncompilable_allow.json')
        j = json.load(open(p)) if os.path.exists(p) else {}
        j[prop] = sorted(keys)
        json.dump(j, open(p, 'w'), indent=1, sort_keys=True)
        print('%s: %d registrations do not compile on this tree (recorded)' % (prop, len(keys)))
        return 0
    if a[0] == 'harvest':  # (re)build corpus/<ID>.inregion.tsv.gz on the reference tree: passing cases inside cause regions
        import gzip
        prop = a[1]
        per = a[2] if len(a) > 2 else '8'
        cases = a[3] if len(a) > 3 else '60000'
        mod = importlib.import_module('vgen.' + prop)
        units, seen_u = [], set()
        for tier in ('quick', 'thorough'):
            for u in mod.plan(tier, seed)['units']:
                if u.cfg != 'fuzz' and u.rc_cases and (u.cfg, tuple(u.regs)) not in seen_u:
                    seen_u.add((u.cfg, tuple(u.regs)))
                    units.append(u)
        build_units(units)
        hdir = os.path.join(BUILD, 'harvest', prop)
        shutil.rmtree(hdir, ignore_errors=True)
        os.makedirs(hdir)

        def one(iu):
            i, u = iu
            out = os.path.join(hdir, '%d.tsv' % i)
            cmd = [u.binary, 'harvest', '--out', out, '--cases', cases, '--per', per, '--words', str(u.words), '--seed', '20261004']
            if u.tick_limit:
                cmd += ['--tick-limit', str(u.tick_limit)]
            run(cmd)
            return [(u.cfg, l) for l in open(out).read().splitlines()] if os.path.exists(out) else []
        lines = set()
        with cf.ThreadPoolExecutor(JOBS) as ex:
            for part in ex.map(one, enumerate(units)):
                lines.update('%s\t%s' % (c, l) for c, l in part)
        os.makedirs(os.path.join(ROOT, 'corpus'), exist_ok=True)
        dst = os.path.join(ROOT, 'corpus', prop + '.inregion.tsv.gz')
        with gzip.GzipFile(dst, 'wb', mtime=0) as f:
            f.write(('#stamp\t%s\n' % corpus_stamp(prop, units) + '\n'.join(sorted(lines)) + '\n').encode())
        print('%s: %d in-region passing cases harvested into %s' % (prop, len(lines), dst))
        return 0
    if a[0] == 'list':
        mod = importlib.import_module('vgen.' + a[1])
        plan = mod.plan(a[2] if len(a) > 2 else 'quick', seed)
        build_units(plan['units'])
        for u in plan['units']:
            print(run([u.binary, 'list']).stdout)
        return 0
    print(__doc__)
    return 2


if __name__ == '__main__':
    sys.exit(main())

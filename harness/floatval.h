// correct rounding / representability in binary floating-point formats, via MPFR (never via host float arithmetic)
#pragma once
#include "core.h"

#include <mpfr.h>

namespace vf {
template<class F>
inline F nearest_float(mpq_class const& q)  // correctly rounded (nearest, ties to even)
{
    mpfr_t x;
    mpfr_init2(x, std::numeric_limits<F>::digits);
    mpfr_set_q(x, q.get_mpq_t(), MPFR_RNDN);
    F r;
    if constexpr (std::is_same_v<F, float>)
        r = mpfr_get_flt(x, MPFR_RNDN);
    else if constexpr (std::is_same_v<F, double>)
        r = mpfr_get_d(x, MPFR_RNDN);
    else
        r = mpfr_get_ld(x, MPFR_RNDN);
    mpfr_clear(x);
    return r;
}
// is q exactly representable with the precision of F (normal range assumed)?
template<class F>
inline bool representable_in(mpq_class const& q)
{
    mpfr_t x;
    mpfr_init2(x, std::numeric_limits<F>::digits);
    int t = mpfr_set_q(x, q.get_mpq_t(), MPFR_RNDN);
    mpfr_clear(x);
    return t == 0;
}
}  // namespace vf

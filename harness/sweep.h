// One site that covers Count consecutive values of an integer template argument of a site template (an exponent, a digit
// count, a shift distance): the first word of the case picks the argument, the rest is decoded by the site itself. Keeps
// matrices over "every exponent from -70 to 70" affordable: one registration per dozen arguments instead of one per argument.
#pragma once
#include "core.h"

#include <utility>

namespace vf {
template<template<int> class At, int Lo, int Count>
struct Sweep {
    template<int... I>
    static void dispatch(int idx, Words& w, Outcome& o, std::string* d, std::integer_sequence<int, I...>)
    {
        (void)((idx == I ? (At<Lo + I>::run(w, o, d), true) : false) || ...);
    }
    static void run(Words& w, Outcome& o, std::string* d)
    {
        int idx = int(w.next() % unsigned(Count));
        std::string inner;
        dispatch(idx, w, o, d ? &inner : nullptr, std::make_integer_sequence<int, Count>{});
        if (d) *d = "arg=" + std::to_string(Lo + idx) + " " + inner;
        o.fp = mix(o.fp, static_cast<std::uint64_t>(idx) + 0x5157);
        if (o.kind == Outcome::FAIL) o.msg = "at template argument " + std::to_string(Lo + idx) + ": " + o.msg;
    }
    static void reg(char const* name) { add_site({name, run, 0, nullptr}); }
};
}  // namespace vf

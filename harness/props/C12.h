// C12 — wrapping is transparent: native-tag types compute what bare integers compute
#pragma once
#include "../scaledval.h"

namespace c12 {
using namespace vf;

enum { ADD,
       SUB,
       MUL,
       DIV,
       MOD,
       AND,
       OR,
       XOR,
       SHL,
       SHR,
       NEG,
       POS,
       NOT,
       EQ,
       NE,
       LT,
       LE,
       GT,
       GE,
       A_ADD,
       A_SUB,
       A_MUL,
       A_DIV,
       A_MOD,
       A_AND,
       A_OR,
       A_XOR,
       A_SHL,
       A_SHR,
       PRE_INC,
       PRE_DEC,
       POST_INC,
       POST_DEC,
       N_OPS };
inline char const* opname(int op)
{
    static char const* n[] = {"+", "-", "*", "/", "%", "&", "|", "^", "<<", ">>", "neg", "pos", "~", "==", "!=", "<", "<=", ">", ">=",
                              "+=", "-=", "*=", "/=", "%=", "&=", "|=", "^=", "<<=", ">>=", "++x", "--x", "x++", "x--"};
    return n[op];
}

template<int Op, class A, class B>
constexpr auto bin(A const& a, B const& b)
{
    if constexpr (Op == ADD || Op == A_ADD) return a + b;
    if constexpr (Op == SUB || Op == A_SUB) return a - b;
    if constexpr (Op == MUL || Op == A_MUL) return a * b;
    if constexpr (Op == DIV || Op == A_DIV) return a / b;
    if constexpr (Op == MOD || Op == A_MOD) return a % b;
    if constexpr (Op == AND || Op == A_AND) return a & b;
    if constexpr (Op == OR || Op == A_OR) return a | b;
    if constexpr (Op == XOR || Op == A_XOR) return a ^ b;
    if constexpr (Op == SHL || Op == A_SHL) return a << b;
    if constexpr (Op == SHR || Op == A_SHR) return a >> b;
    if constexpr (Op == EQ) return a == b;
    if constexpr (Op == NE) return a != b;
    if constexpr (Op == LT) return a < b;
    if constexpr (Op == LE) return a <= b;
    if constexpr (Op == GT) return a > b;
    if constexpr (Op == GE) return a >= b;
}
template<int Op, class A, class B>
constexpr void assign(A& a, B const& b)
{
    if constexpr (Op == A_ADD) a += b;
    if constexpr (Op == A_SUB) a -= b;
    if constexpr (Op == A_MUL) a *= b;
    if constexpr (Op == A_DIV) a /= b;
    if constexpr (Op == A_MOD) a %= b;
    if constexpr (Op == A_AND) a &= b;
    if constexpr (Op == A_OR) a |= b;
    if constexpr (Op == A_XOR) a ^= b;
    if constexpr (Op == A_SHL) a <<= b;
    if constexpr (Op == A_SHR) a >>= b;
}
template<int Op, class A, class B>
concept can_bin = requires(A a, B b) { bin<Op>(a, b); };
template<int Op, class A, class B>
concept can_assign = requires(A& a, B b) { assign<Op>(a, b); };

// is the built-in expression defined? (no signed overflow, shift in range, no /0, no min/-1)
template<int Op, class L, class R>
bool defined(L a, R b)
{
    constexpr int base = Op >= A_ADD && Op <= A_SHR ? Op - A_ADD : Op;
    mpz_class za = to_mpz(a), zb = to_mpz(b);
    if constexpr (base <= MUL) {
        using Res = decltype(bin<base>(a, b));
        if constexpr (is_signed_int_v<Res>) {
            mpz_class r = base == ADD ? mpz_class(za + zb) : base == SUB ? mpz_class(za - zb)
                                                                         : mpz_class(za * zb);
            return fits<Res>(r);
        }
        return true;
    } else if constexpr (base == DIV || base == MOD) {
        using Res = decltype(a / b);
        if (b == 0) return false;
        if constexpr (is_signed_int_v<Res>) return !(fits<Res>(za) && za == zmin<Res>() && wrap_to<Res>(zb) == Res(-1));
        return true;
    } else if constexpr (base == SHL || base == SHR) {
        using PL = decltype(+a);
        if (zb < 0 || zb >= bits_v<PL>) return false;
        if constexpr (base == SHL && is_signed_int_v<PL>) {
            if (za < 0) return false;
            return fits<PL>(za << zb.get_ui());
        }
        return true;
    }
    return true;
}

// WL, WR: wrapper types over L and R (same nesting)
// IncDec: false for nestings whose ++/-- are ill-formed on the pinned tree (hard error inside CNL, not SFINAE-friendly)
template<class WL, class WR, class L, class R, bool IncDec = true>
struct Kernel {
    template<int Op>
    static void check_op(L a, R b, Outcome& o)
    {
        std::string const on = opname(Op);
        if constexpr (Op <= SHR || (Op >= EQ && Op <= GE)) {
            if constexpr (!can_bin<Op, WL, WR>) {
                return o.discard("operator-not-provided");
            } else {
                if (!defined<Op>(a, b)) return o.discard("builtin-undefined");
                auto expect = bin<Op>(a, b);
                using Res = decltype(expect);
                Res got{}, got2{}, got3{};
                bool have2 = false, have3 = false;
                bool ok = guard(o, [&] {
                    WL wa{a};
                    WR wb{b};
                    auto r = bin<Op>(wa, wb);
                    static_assert(std::is_same_v<std::remove_cvref_t<decltype(cnl::unwrap(r))>, Res>, "result representation differs from the built-in expression's");
                    got = cnl::unwrap(r);
                    if constexpr (can_bin<Op, WL, R>) {
                        got2 = static_cast<Res>(cnl::unwrap(bin<Op>(wa, b)));
                        have2 = true;
                    }
                    if constexpr (can_bin<Op, L, WR> && Op != SHL && Op != SHR) {
                        got3 = static_cast<Res>(cnl::unwrap(bin<Op>(a, wb)));
                        have3 = true;
                    }
                });
                if (!ok) {
                    o.fclass = "op" + on + "/" + o.fclass;
                    return;
                }
                if (got != expect) return o.fail("op" + on + "/value-mismatch", "expected " + istr(expect) + " got " + istr(got));
                if (have2 && got2 != expect) return o.fail("op" + on + "/builtin-rhs-mismatch", "expected " + istr(expect) + " got " + istr(got2));
                if (have3 && got3 != expect) return o.fail("op" + on + "/builtin-lhs-mismatch", "expected " + istr(expect) + " got " + istr(got3));
            }
        } else if constexpr (Op == NEG || Op == POS || Op == NOT) {
            using PL = decltype(+a);
            if constexpr (Op == NEG && is_signed_int_v<PL>) {
                if (to_mpz(a) == zmin<PL>()) return o.discard("builtin-undefined");
            }
            auto expect = Op == NEG ? -a : Op == POS ? +a
                                                     : ~a;
            using Res = decltype(expect);
            Res got{};
            bool truth_ok = true;
            bool ok = guard(o, [&] {
                WL wa{a};
                if constexpr (Op == POS) {
                    // the logical forms go through the contextual conversion to bool: !x, x ? .. : .., static_cast<bool>(x)
                    if constexpr (requires { !wa; }) truth_ok = ((!wa) == (!a)) && ((wa ? 1 : 2) == (a ? 1 : 2)) && (static_cast<bool>(wa) == static_cast<bool>(a));
                }
                if constexpr (Op == NEG) {
                    auto r = -wa;
                    static_assert(std::is_same_v<std::remove_cvref_t<decltype(cnl::unwrap(r))>, Res>);
                    got = cnl::unwrap(r);
                } else if constexpr (Op == POS) {
                    got = cnl::unwrap(+wa);
                } else {
                    if constexpr (requires { ~wa; }) got = static_cast<Res>(cnl::unwrap(~wa));
                    else
                        got = expect;
                }
            });
            if (!ok) {
                o.fclass = "op" + on + "/" + o.fclass;
                return;
            }
            if (got != expect) return o.fail("op" + on + "/value-mismatch", "expected " + istr(expect) + " got " + istr(got));
            if (!truth_ok) return o.fail("op!/truth-value-mismatch", "!x, x ? a : b or static_cast<bool>(x) differs from the built-in for " + istr(a));
        } else if constexpr (Op >= A_ADD && Op <= A_SHR) {
            if constexpr (!can_assign<Op, WL, WR>) {
                return o.discard("operator-not-provided");
            } else {
                if (!defined<Op>(a, b)) return o.discard("builtin-undefined");
                // a op= b is a = a op b converted back to a's type
                L expect = static_cast<L>(bin<Op>(a, b));
                L got{}, got2{};
                bool have2 = false;
                bool ok = guard(o, [&] {
                    WL wa{a};
                    WR wb{b};
                    assign<Op>(wa, wb);
                    got = cnl::unwrap(wa);
                    if constexpr (can_assign<Op, WL, R>) {
                        WL w2{a};
                        assign<Op>(w2, b);
                        got2 = cnl::unwrap(w2);
                        have2 = true;
                    }
                });
                if (!ok) {
                    o.fclass = "op" + on + "/" + o.fclass;
                    return;
                }
                if (got != expect) return o.fail("op" + on + "/value-mismatch", "expected " + istr(expect) + " got " + istr(got));
                if (have2 && got2 != expect) return o.fail("op" + on + "/builtin-rhs-mismatch", "expected " + istr(expect) + " got " + istr(got2));
            }
        } else {
            // ++ / -- are equivalent to adding / subtracting one
            if constexpr (!IncDec) {
                return o.discard("operator-not-provided");
            } else {
            constexpr bool inc = Op == PRE_INC || Op == POST_INC;
            constexpr bool pre = Op == PRE_INC || Op == PRE_DEC;
            if (!(inc ? defined<ADD>(a, 1) : defined<SUB>(a, 1))) return o.discard("builtin-undefined");
            L after = static_cast<L>(inc ? a + 1 : a - 1);
            L expect_ret = pre ? after : a;
            L got_after{}, got_ret{};
            bool available = true;
            bool ok = guard(o, [&] {
                WL wa{a};
                if constexpr (Op == PRE_INC) {
                    if constexpr (requires { ++wa; }) got_ret = cnl::unwrap(++wa);
                    else
                        available = false;
                } else if constexpr (Op == PRE_DEC) {
                    if constexpr (requires { --wa; }) got_ret = cnl::unwrap(--wa);
                    else
                        available = false;
                } else if constexpr (Op == POST_INC) {
                    if constexpr (requires { wa++; }) got_ret = cnl::unwrap(wa++);
                    else
                        available = false;
                } else {
                    if constexpr (requires { wa--; }) got_ret = cnl::unwrap(wa--);
                    else
                        available = false;
                }
                got_after = cnl::unwrap(wa);
            });
            if (!ok) {
                o.fclass = "op" + on + "/" + o.fclass;
                return;
            }
            if (!available) return o.discard("operator-not-provided");
            if (got_after != after || got_ret != expect_ret)
                return o.fail("op" + on + "/value-mismatch", "expected value " + istr(after) + " returning " + istr(expect_ret) + ", got " + istr(got_after) + " returning " + istr(got_ret));
            }
        }
        using UL = make_unsigned_t<L>;
        bool hb = (static_cast<UL>(a) >> (bits_v<L> - 1)) != 0;
        o.pass(hb || a == int_max<L>() || b == int_max<R>() || b == int_min<R>(), opname(Op));
    }
    static void check(int op, L a, R b, Outcome& o, std::string* d)
    {
        if (d) *d = std::string("op ") + opname(op) + " a=" + istr(a) + " b=" + istr(b);
        o.fp = fpn(a, b, op);
        [&]<int... I>(std::integer_sequence<int, I...>) { ((op == I ? check_op<I>(a, b, o) : void()), ...); }
        (std::make_integer_sequence<int, N_OPS>{});
    }
    static void run(Words& w, Outcome& o, std::string* d)
    {
        int op = int(draw_small(w, 0, N_OPS - 1));
        L a = draw_int<L>(w);
        R b = draw_int<R>(w);
        int base = (op >= A_ADD && op <= A_SHR) ? op - A_ADD : op;
        if ((base == SHL || base == SHR) && (w.next() % 4) != 0) b = static_cast<R>(draw_small(w, 0, bits_v<decltype(+a)> - 1));
        if (base <= MUL && (w.next() % 2)) {
            // keep magnitudes where the built-in is defined: halve the widths
            a = static_cast<L>(a >> (bits_v<L> / 2));
            b = static_cast<R>(b >> (bits_v<R> / 2));
        }
        check(op, a, b, o, d);
    }
    static constexpr std::uint64_t enum_size() { return (bits_v<L> + bits_v<R> <= 16) ? (std::uint64_t{N_OPS} << 16) : 0; }
    static void run_enum(std::uint64_t idx, Outcome& o, std::string* d)
    {
        using UL = make_unsigned_t<L>;
        using UR = make_unsigned_t<R>;
        check(int(idx >> 16), static_cast<L>(static_cast<UL>(idx)), static_cast<R>(static_cast<UR>(idx >> 8)), o, d);
    }
    static void reg(char const* name) { add_site({std::string("C12|kernel|") + name, run, enum_size(), run_enum}); }
};

////////////////////////////////////////////////////////////////////////////////
// the fixed-point kernels of the documentation against hand-written shift-and-operate integer code
struct DocKernels {
    static void check(int k, std::int32_t a, std::int32_t b, Outcome& o, std::string* d)
    {
        static char const* names[] = {"multiply-widen", "mixed-exponent-add", "average", "square", "mixed-exponent-subtract"};
        if (d) *d = std::string(names[k]) + " a=" + istr(a) + " b=" + istr(b);
        o.fp = fpn(a, b, k);
        using q16 = cnl::scaled_integer<std::int32_t, cnl::power<-16>>;
        using q16w = cnl::scaled_integer<std::int64_t, cnl::power<-16>>;
        mpz_class expect, got;
        int exp_expect = 0, exp_got = 0;
        bool ok = true;
        switch (k) {
        case 0: {  // int64_t{a} * b, scale 2^-32
            expect = to_mpz(std::int64_t{a} * b);
            exp_expect = -32;
            ok = guard(o, [&] {
                auto fa = cnl::_impl::from_rep<q16>(a), fb = cnl::_impl::from_rep<q16>(b);
                auto prod = q16w{fa} * fb;
                static_assert(std::is_same_v<std::remove_cvref_t<decltype(cnl::unwrap(prod))>, std::int64_t>);
                got = to_mpz(cnl::unwrap(prod));
                exp_got = scaled_info<decltype(prod)>::exponent;
            });
            break;
        }
        case 1:
        case 4: {  // a at 2^-8, b at 2^-4: a +- (b << 4)
            if (!fits<std::int32_t>(to_mpz(b) * 16)) return o.discard("builtin-undefined");
            mpz_class r = k == 1 ? mpz_class(to_mpz(a) + to_mpz(b) * 16) : mpz_class(to_mpz(a) - to_mpz(b) * 16);
            if (!fits<std::int32_t>(r)) return o.discard("builtin-undefined");
            expect = r;
            exp_expect = -8;
            ok = guard(o, [&] {
                auto fa = cnl::_impl::from_rep<cnl::scaled_integer<std::int32_t, cnl::power<-8>>>(a);
                auto fb = cnl::_impl::from_rep<cnl::scaled_integer<std::int32_t, cnl::power<-4>>>(b);
                auto s = k == 1 ? fa + fb : fa - fb;
                static_assert(std::is_same_v<std::remove_cvref_t<decltype(cnl::unwrap(s))>, std::int32_t>);
                got = to_mpz(cnl::unwrap(s));
                exp_got = scaled_info<decltype(s)>::exponent;
            });
            break;
        }
        case 2: {  // (int64_t{a} + b), then halved by moving the exponent
            expect = to_mpz(std::int64_t{a} + b);
            exp_expect = -17;
            ok = guard(o, [&] {
                using namespace cnl::literals;
                auto fa = cnl::_impl::from_rep<q16>(a), fb = cnl::_impl::from_rep<q16>(b);
                auto sum = q16w{fa} + fb;
                auto avg = sum >> 1_c;
                got = to_mpz(cnl::unwrap(avg));
                exp_got = scaled_info<decltype(avg)>::exponent;
            });
            break;
        }
        default: {  // square of a 31-digit elastic value
            if (a == std::numeric_limits<std::int32_t>::min()) return o.discard("outside-elastic-range");
            expect = to_mpz(std::int64_t{a} * a);
            exp_expect = -32;
            ok = guard(o, [&] {
                using E = cnl::elastic_scaled_integer<31, cnl::power<-16>>;
                auto f = cnl::_impl::from_rep<E>(cnl::elastic_integer<31>{a});
                auto prod = f * f;
                got = rep_mpz(prod);
                exp_got = scaled_info<decltype(prod)>::exponent;
            });
            break;
        }
        }
        if (!ok) {
            o.fclass = std::string(names[k]) + "/" + o.fclass;
            return;
        }
        if (got != expect || exp_got != exp_expect)
            return o.fail(std::string(names[k]) + "/value-mismatch", "expected " + zstr(expect) + " x 2^" + std::to_string(exp_expect) + " got " + zstr(got) + " x 2^" + std::to_string(exp_got));
        o.pass(a < 0 || b < 0 || a == std::numeric_limits<std::int32_t>::max(), names[k]);
    }
    static void run(Words& w, Outcome& o, std::string* d)
    {
        int k = int(draw_small(w, 0, 4));
        std::int32_t a = draw_int<std::int32_t>(w), b = draw_int<std::int32_t>(w);
        if ((k == 1 || k == 4) && (w.next() % 4)) {
            b >>= 5;
            a >>= 1;
        }
        check(k, a, b, o, d);
    }
    static void reg() { add_site({"C12|doc-kernels", run, 0, nullptr}); }
};
////////////////////////////////////////////////////////////////////////////////
// mixed-exponent scaled_integer expressions against the shift-and-operate integer code they abstract:
// align both representations to the smaller exponent by a left shift, then apply the built-in operator
template<class LRep, int EL, class RRep, int ER>
struct ScaledMixed {
    static constexpr int Emin = EL < ER ? EL : ER;
    using SL = cnl::scaled_integer<LRep, cnl::power<EL>>;
    using SR = cnl::scaled_integer<RRep, cnl::power<ER>>;
    static constexpr int n_ops = 17;  // + - & | ^ += -= &= |= ^=, one slot for the ==/< family, then * / % *= /= %=
    static char const* name(int op)
    {
        static char const* n[] = {"+", "-", "&", "|", "^", "+=", "-=", "&=", "|=", "^=", "cmp", "*", "/", "%", "*=", "/=", "%="};
        return n[op];
    }
    // * / %: the hand-written code operates on the reps as they are (no alignment): a * b at exponent EL + ER, a / b at EL - ER,
    // a % b at EL; the compound forms convert the result back to x's exponent and type (shift, truncation toward zero, narrowing)
    template<int K>
    static void check_muldiv(int op, LRep a, RRep b, Outcome& o)
    {
        using Res = decltype(K == 0 ? a * b : K == 1 ? a / b : a % b);
        mpz_class za = to_mpz(a), zb = to_mpz(b), zr;
        if (K != 0 && b == 0) return o.discard("zero-divisor");
        if (!fits<Res>(za) || !fits<Res>(zb)) return o.discard("builtin-conversion-changes-value");
        if (K == 0) zr = za * zb;
        if (K == 1) mpz_tdiv_q(zr.get_mpz_t(), za.get_mpz_t(), zb.get_mpz_t());
        if (K == 2) mpz_tdiv_r(zr.get_mpz_t(), za.get_mpz_t(), zb.get_mpz_t());
        if (is_signed_int_v<Res> && (!fits<Res>(zr) || (K != 0 && za == zmin<Res>() && zb == -1))) return o.discard("builtin-undefined");
        zr = to_mpz(wrap_to<Res>(zr));
        constexpr int res_exp = K == 0 ? EL + ER : K == 1 ? EL - ER : EL;
        bool const compound = op >= 14;
        mpz_class got, want = zr;
        int got_exp = 0, want_exp = res_exp;
        if (compound) {
            int sh = res_exp - EL;
            mpz_class q;
            if (sh >= 0) {
                q = zr << sh;
                if (!fits<Res>(q) || (zr < 0 && sh > 0)) return o.discard("builtin-undefined");
            } else {
                if (-sh >= bits_v<Res> - (is_signed_int_v<Res> ? 1 : 0)) return o.discard("shift-not-less-than-digits");
                mpz_tdiv_q_2exp(q.get_mpz_t(), zr.get_mpz_t(), static_cast<unsigned long>(-sh));
            }
            want = to_mpz(wrap_to<LRep>(q));
            want_exp = EL;
        }
        bool ok = guard(o, [&] {
            SL x = cnl::_impl::from_rep<SL>(a);
            SR y = cnl::_impl::from_rep<SR>(b);
            if (!compound) {
                auto r = [&] {
                    if constexpr (K == 0) return x * y;
                    if constexpr (K == 1) return x / y;
                    if constexpr (K == 2) return x % y;
                }();
                static_assert(std::is_same_v<std::remove_cvref_t<decltype(cnl::unwrap(r))>, Res>, "result representation differs from the built-in expression's");
                got = to_mpz(cnl::unwrap(r));
                got_exp = scaled_info<std::remove_cvref_t<decltype(r)>>::exponent;
            } else {
                if constexpr (K == 0) x *= y;
                if constexpr (K == 1) x /= y;
                if constexpr (K == 2) x %= y;
                got = to_mpz(cnl::unwrap(x));
                got_exp = EL;
            }
        });
        if (!ok) {
            o.fclass = std::string("mixed") + name(op) + "/" + o.fclass;
            return;
        }
        if (got != want || got_exp != want_exp)
            return o.fail(std::string("mixed") + name(op) + "/value-mismatch",
                          "expected " + zstr(want) + " x 2^" + std::to_string(want_exp) + " got " + zstr(got) + " x 2^" + std::to_string(got_exp));
        o.pass(a != 0 && b != 0, name(op));
    }
    template<int K, class A, class B>
    static auto apply(A const& a, B const& b)
    {
        if constexpr (K == 0) return a + b;
        if constexpr (K == 1) return a - b;
        if constexpr (K == 2) return a & b;
        if constexpr (K == 3) return a | b;
        if constexpr (K == 4) return a ^ b;
    }
    template<int K>
    static void check_k(int op, LRep a, RRep b, Outcome& o)
    {
        // hand-written reference
        using PL = decltype(+a);
        using PR = decltype(+b);
        mpz_class zl = to_mpz(a) << (EL - Emin), zr = to_mpz(b) << (ER - Emin);
        if (!fits<PL>(zl) || !fits<PR>(zr) || (to_mpz(a) < 0 && EL != Emin) || (to_mpz(b) < 0 && ER != Emin)) return o.discard("builtin-undefined");
        PL al = static_cast<PL>(static_cast<PL>(a) << (EL - Emin));
        PR ar = static_cast<PR>(static_cast<PR>(b) << (ER - Emin));
        using Res = decltype(apply<K>(al, ar));
        if constexpr (K <= 1 && is_signed_int_v<Res>) {
            mpz_class r = K == 0 ? mpz_class(to_mpz(al) + to_mpz(ar)) : mpz_class(to_mpz(al) - to_mpz(ar));
            if (!fits<Res>(r)) return o.discard("builtin-undefined");
        }
        Res expect = apply<K>(al, ar);
        bool const compound = op >= 5;
        mpz_class got, want;
        int got_exp = 0, want_exp = Emin;
        bool ok = guard(o, [&] {
            SL x = cnl::_impl::from_rep<SL>(a);
            SR y = cnl::_impl::from_rep<SR>(b);
            if (!compound) {
                auto r = apply<K>(x, y);
                static_assert(std::is_same_v<std::remove_cvref_t<decltype(cnl::unwrap(r))>, Res>, "result representation differs from the shift-and-operate code's");
                got = to_mpz(cnl::unwrap(r));
                got_exp = scaled_info<std::remove_cvref_t<decltype(r)>>::exponent;
                want = to_mpz(expect);
            } else {
                // x op= y is x = x op y converted back to x's type: shift right by (EL - Emin), then narrow to LRep
                if constexpr (K == 0) x += y;
                if constexpr (K == 1) x -= y;
                if constexpr (K == 2) x &= y;
                if constexpr (K == 3) x |= y;
                if constexpr (K == 4) x ^= y;
                got = to_mpz(cnl::unwrap(x));
                got_exp = EL;
                want_exp = EL;
                mpz_class t = to_mpz(expect), q;
                mpz_tdiv_q_2exp(q.get_mpz_t(), t.get_mpz_t(), static_cast<unsigned long>(EL - Emin));
                want = to_mpz(wrap_to<LRep>(q));
            }
        });
        if (!ok) {
            o.fclass = std::string("mixed") + name(op) + "/" + o.fclass;
            return;
        }
        if (got != want || got_exp != want_exp)
            return o.fail(std::string("mixed") + name(op) + "/value-mismatch",
                          "expected " + zstr(want) + " x 2^" + std::to_string(want_exp) + " got " + zstr(got) + " x 2^" + std::to_string(got_exp));
        o.pass(a != 0 && b != 0, name(op));
    }
    static void check(int op, LRep a, RRep b, Outcome& o, std::string* d)
    {
        if (d) *d = std::string("op ") + name(op) + " a_rep=" + istr(a) + " b_rep=" + istr(b);
        o.fp = fpn(a, b, op);
        if (op == 10) {
            using PL = decltype(+a);
            using PR = decltype(+b);
            mpz_class zl = to_mpz(a) << (EL - Emin), zr = to_mpz(b) << (ER - Emin);
            if (!fits<PL>(zl) || !fits<PR>(zr) || (to_mpz(a) < 0 && EL != Emin) || (to_mpz(b) < 0 && ER != Emin)) return o.discard("builtin-undefined");
            PL al = static_cast<PL>(static_cast<PL>(a) << (EL - Emin));
            PR ar = static_cast<PR>(static_cast<PR>(b) << (ER - Emin));
            bool e[6] = {al == ar, al != ar, al < ar, al <= ar, al > ar, al >= ar}, g[6] = {};
            bool ok = guard(o, [&] {
                SL x = cnl::_impl::from_rep<SL>(a);
                SR y = cnl::_impl::from_rep<SR>(b);
                g[0] = x == y, g[1] = x != y, g[2] = x < y, g[3] = x <= y, g[4] = x > y, g[5] = x >= y;
            });
            if (!ok) {
                o.fclass = "mixedcmp/" + o.fclass;
                return;
            }
            for (int i = 0; i < 6; ++i)
                if (e[i] != g[i]) return o.fail("mixedcmp/value-mismatch", "comparison " + std::to_string(i));
            return o.pass(a != 0 && b != 0, "cmp");
        }
        if (op >= 11) {
            int k3 = (op - 11) % 3;
            [&]<int... I>(std::integer_sequence<int, I...>) { ((k3 == I ? check_muldiv<I>(op, a, b, o) : void()), ...); }
            (std::make_integer_sequence<int, 3>{});
            return;
        }
        int k = op % 5;
        [&]<int... I>(std::integer_sequence<int, I...>) { ((k == I ? check_k<I>(op, a, b, o) : void()), ...); }
        (std::make_integer_sequence<int, 5>{});
    }
    static void run(Words& w, Outcome& o, std::string* d)
    {
        int op = int(draw_small(w, 0, n_ops - 1));
        LRep a = draw_int<LRep>(w);
        RRep b = draw_int<RRep>(w);
        if (w.next() % 4) {  // make the alignment shift defined most of the time
            int sl = EL - Emin + int(w.next() % 3), sr = ER - Emin + int(w.next() % 3);
            using UL = make_unsigned_t<LRep>;
            using UR = make_unsigned_t<RRep>;
            a = static_cast<LRep>(static_cast<UL>(static_cast<UL>(a) << 1) >> (sl + 2 < bits_v<LRep> ? sl + 2 : bits_v<LRep> - 1));
            b = static_cast<RRep>(static_cast<UR>(static_cast<UR>(b) << 1) >> (sr + 2 < bits_v<RRep> ? sr + 2 : bits_v<RRep> - 1));
        }
        check(op, a, b, o, d);
    }
    static constexpr std::uint64_t enum_size() { return (bits_v<LRep> + bits_v<RRep> <= 16) ? (std::uint64_t{n_ops} << 16) : 0; }
    static void run_enum(std::uint64_t idx, Outcome& o, std::string* d)
    {
        using UL = make_unsigned_t<LRep>;
        using UR = make_unsigned_t<RRep>;
        check(int(idx >> 16), static_cast<LRep>(static_cast<UL>(idx)), static_cast<RRep>(static_cast<UR>(idx >> 8)), o, d);
    }
    static void reg(char const* nm) { add_site({std::string("C12|scaled-mixed|") + nm, run, enum_size(), run_enum}); }
};
////////////////////////////////////////////////////////////////////////////////
// ++ / -- on a scaled_integer with any exponent and radix are equivalent to adding / subtracting one (x = x + 1 converted back to
// x's type: truncation toward zero at x's resolution); the prefix forms return the new value, the postfix forms the old one
template<class Rep, int E, int Radix>
struct IncDecScaled {
    using S = cnl::scaled_integer<Rep, cnl::power<E, Radix>>;
    static char const* name(int op)
    {
        static char const* n[] = {"++x", "x++", "--x", "x--", "x+=1", "x-=1"};
        return n[op];
    }
    static void check(int op, mpz_class const& zr, Outcome& o, std::string* d)
    {
        if (d) *d = std::string(name(op)) + " rep=" + zstr(zr);
        o.fp = fpn(zr, op);
        mpq_class unit = qpow(Radix, E), v = mkq(zr) * unit;
        bool const inc = op == 0 || op == 1 || op == 4;
        mpq_class nv = inc ? mpq_class(v + 1) : mpq_class(v - 1);
        mpz_class nr = q_trunc(nv / unit);
        // preconditions of the underlying x + 1: one, aligned to x's exponent, and the sum fit the promoted representation
        using P = decltype(+std::declval<Rep>());
        mpz_class one = E <= 0 ? zpow(Radix, -E) : mpz_class(0);
        if (E <= 0 && (!fits<P>(one) || !fits<P>(zr + one) || !fits<P>(zr - one))) return o.discard("aligned-one-does-not-fit");
        if (E > 0 && (!fits<P>(zr * zpow(Radix, E)) || !fits<P>(zr * zpow(Radix, E) + 1) || !fits<P>(zr * zpow(Radix, E) - 1))) return o.discard("aligned-operand-does-not-fit");
        if (!fits<Rep>(nr)) return o.discard("result-does-not-fit");
        mpz_class got_rep, got_ret;
        bool ok = guard(o, [&] {
            S x = cnl::_impl::from_rep<S>(wrap_to<Rep>(zr));
            switch (op) {
            case 0: got_ret = rep_mpz(++x); break;
            case 1: got_ret = rep_mpz(x++); break;
            case 2: got_ret = rep_mpz(--x); break;
            case 3: got_ret = rep_mpz(x--); break;
            case 4: x += 1, got_ret = rep_mpz(x); break;
            default: x -= 1, got_ret = rep_mpz(x);
            }
            got_rep = rep_mpz(x);
        });
        if (!ok) {
            o.fclass = std::string("incdec") + name(op) + "/" + o.fclass;
            return;
        }
        if (got_rep != nr) return o.fail(std::string("incdec") + name(op) + "/value-mismatch", "expected rep " + zstr(nr) + " got " + zstr(got_rep));
        mpz_class want_ret = (op == 1 || op == 3) ? zr : nr;
        if (got_ret != want_ret) return o.fail(std::string("incdec") + name(op) + "/returned-value", "expected rep " + zstr(want_ret) + " got " + zstr(got_ret));
        o.pass(E != 0, name(op));
    }
    static void run(Words& w, Outcome& o, std::string* d)
    {
        int op = int(draw_small(w, 0, 5));
        check(op, to_mpz(draw_int<Rep>(w)), o, d);
    }
    static constexpr std::uint64_t enum_size() { return bits_v<Rep> <= 16 ? (std::uint64_t{6} << bits_v<Rep>) : 0; }
    static void run_enum(std::uint64_t idx, Outcome& o, std::string* d)
    {
        using U = make_unsigned_t<Rep>;
        check(int(idx >> bits_v<Rep>), to_mpz(static_cast<Rep>(static_cast<U>(idx))), o, d);
    }
    static void reg(char const* name_) { add_site({std::string("C12|incdec-scaled|") + name_, run, enum_size(), run_enum}); }
};
}  // namespace c12

// C06 — overflow is detected exactly and handled as the tag specifies
// C07 — checked arithmetic is total (Total = true: invariant-only oracle over *all* operand values)
#pragma once
#include <set>
#include "../scaledval.h"
#include "../sweep.h"

#include <cnl/all.h>

namespace c06 {
using namespace vf;

#if defined(CNL_BUILTIN_OVERFLOW_ENABLED)
inline constexpr char const* path_name = "builtin";
#else
inline constexpr char const* path_name = "portable";
#endif

template<class Tag>
struct tag_info;
template<>
struct tag_info<cnl::saturated_overflow_tag> {
    static constexpr int kind = 0;
    static constexpr char const* name = "saturated";
};
template<>
struct tag_info<cnl::_impl::throwing_overflow_tag> {
    static constexpr int kind = 1;
    static constexpr char const* name = "throwing";
};
template<>
struct tag_info<cnl::trapping_overflow_tag> {
    static constexpr int kind = 2;
    static constexpr char const* name = "trapping";
};

// what CNL did
struct Obs {
    int signal = 0;  // 0 none, +1 positive overflow, -1 negative overflow, 2 overflow signalled with other text
    char const* how = "";  // "throw" / "abort"
    mpz_class value;
    bool trapped = false;  // UB trap, signal, internal error: C07's business
};

inline int side_of(char const* msg)
{
    std::string m = msg ? msg : "";
    if (m == "positive overflow") return 1;
    if (m == "negative overflow") return -1;
    return 2;
}

// runs f (returning a native integer) under the guard and records value / overflow signal / trap
template<class F>
void observe(Outcome& o, Obs& obs, F&& f)
{
    Outcome tmp;
    bool ok = guard(tmp, [&] {
        try {
            obs.value = to_mpz(f());
        } catch (std::overflow_error const& e) {
            obs.signal = side_of(e.what());
            obs.how = "throw";
        }
    });
    if (ok) return;
    if (tmp.fclass == "abort:positive overflow" || tmp.fclass == "abort:negative overflow") {
        obs.signal = tmp.fclass == "abort:positive overflow" ? 1 : -1;
        obs.how = "abort";
        return;
    }
    obs.trapped = true;
    o.take_failure(tmp);
}

// compares the observation with the expectation; region: -1 below, 0 in range, +1 above
template<class Tag>
void judge(std::string const& prefix, int region, mpz_class const& expect_value, mpz_class const& lo, mpz_class const& hi, Obs const& obs,
           Outcome& o, bool nontrivial, char const* label)
{
    constexpr int kind = tag_info<Tag>::kind;
    auto fail = [&](std::string const& symptom, std::string const& m) { o.fail(prefix + "/" + symptom, m); };
    std::string got = obs.signal ? std::string(obs.how) + (obs.signal == 1 ? ":positive" : obs.signal == -1 ? ":negative"
                                                                                                               : ":other")
                                 : "value " + zstr(obs.value);
    if (region == 0) {
        if (obs.signal) return fail(obs.signal == 1 ? "in-range-reported-positive" : obs.signal == -1 ? "in-range-reported-negative"
                                                                                                        : "in-range-reported-other",
                                    "exact result " + zstr(expect_value) + " is in range, got " + got);
        if (obs.value != expect_value) {
            std::string sym = "in-range-wrong-value";
            if (kind == 0 && obs.value == hi) sym = "in-range-saturated-max";
            if (kind == 0 && obs.value == lo) sym = "in-range-saturated-lowest";
            return fail(sym, "expected " + zstr(expect_value) + " got " + got);
        }
        return o.pass(nontrivial, label);
    }
    std::string const where = region > 0 ? "above" : "below";
    if (kind == 0) {
        if (obs.signal) return fail(where + "-signalled-under-saturated", got);
        mpz_class const& want = region > 0 ? hi : lo;
        if (obs.value == want) return o.pass(true, region > 0 ? "saturated-max" : "saturated-lowest");
        if (obs.value == (region > 0 ? lo : hi)) return fail(where + "-saturated-wrong-bound", "expected " + zstr(want) + " got " + got);
        return fail(where + "-not-detected", "expected " + zstr(want) + " got " + got);
    }
    char const* const how = kind == 1 ? "throw" : "abort";
    if (!obs.signal) return fail(where + "-not-detected", std::string("expected ") + how + " got " + got);
    if (std::string(obs.how) != how) return fail(where + "-wrong-signal-kind", got);
    if (obs.signal != region) return fail(where + "-reported-wrong-polarity", got);
    o.pass(true, region > 0 ? "signalled-positive" : "signalled-negative");
}

inline int region_of(mpz_class const& v, mpz_class const& lo, mpz_class const& hi) { return v < lo ? -1 : v > hi ? 1
                                                                                                                   : 0; }

// sub-region of "an operand of a mixed-signedness operation is negative and the result type is unsigned", computed from the
// operands alone: which operand is negative, where the exact result lies, whether the other operand is 0, and whether the
// operation carried out on the operands *converted to the result type* (what the pinned code does before/without detection)
// happens to deliver what the property demands (the exact value, or the bound under the saturated tag). The listed findings
// name the cells that fail on the pinned tree; cells that hold there are not part of any finding.
inline char const* mixed_negative_cell(bool lhs_negative, int region, bool other_zero, bool wrap_agrees)
{
    static std::set<std::string> pool;
    std::string c = std::string("negative-operand-unsigned-result/") + (lhs_negative ? "lhs-negative/" : "rhs-negative/")
                  + (region < 0 ? "exact-below" : region > 0 ? "exact-above" : "exact-in-range") + (wrap_agrees ? "/wrap-agrees" : "/wrap-differs")
                  + (other_zero ? "/other-zero" : "");
    return pool.insert(c).first->c_str();
}
// does op(a mod 2^N, b mod 2^N) mod 2^N equal the demanded result? op: 0 + 1 - 2 * 3 /; lo..hi: range of the unsigned result type
inline bool wrap_agrees(int op, mpz_class const& za, mpz_class const& zb, mpz_class const& exact, int region, mpz_class const& lo, mpz_class const& hi, int tag_kind)
{
    mpz_class const m = hi + 1;
    auto wrap = [&](mpz_class v) {
        v %= m;
        if (v < 0) v += m;
        return v;
    };
    mpz_class wa = wrap(za), wb = wrap(zb), w;
    switch (op) {
    case 0: w = wrap(wa + wb); break;
    case 1: w = wrap(wa - wb); break;
    case 2: w = wrap(wa * wb); break;
    default:
        if (wb == 0) return false;
        w = wa / wb;
    }
    if (region == 0) return w == exact;
    if (tag_kind != 0) return false;
    return w == (region < 0 ? lo : hi);
}

////////////////////////////////////////////////////////////////////////////////
// integer operands. Route 0: tagged custom_operator / cnl::convert; Route 1: overflow_integer
template<class Tag, class L, class R, int Route, bool Total>
struct Int {
    static constexpr int n_ops = 7;
    static char const* opname(int op)
    {
        static char const* n[] = {"add", "sub", "mul", "div", "shl", "minus", "convert"};
        return n[op];
    }
    static constexpr bool mixed = is_signed_int_v<L> != is_signed_int_v<R>;
    using OL = cnl::overflow_integer<L, Tag>;
    using OR = cnl::overflow_integer<R, Tag>;

    template<int Op>
    static auto builtin_expr(L a, R b)
    {
        if constexpr (Op == 0) return a + b;
        if constexpr (Op == 1) return a - b;
        if constexpr (Op == 2) return a * b;
        if constexpr (Op == 3) return a / b;
        if constexpr (Op == 4) return a << b;
        if constexpr (Op == 5) return -a;
        if constexpr (Op == 6) return R{};
    }
    template<int Op>
    static auto cnl_expr(L a, R b)
    {
        namespace ci = cnl::_impl;
        if constexpr (Route == 0) {
            if constexpr (Op == 0) return cnl::custom_operator<ci::add_op, cnl::op_value<L, Tag>, cnl::op_value<R, Tag>>{}(a, b);
            if constexpr (Op == 1) return cnl::custom_operator<ci::subtract_op, cnl::op_value<L, Tag>, cnl::op_value<R, Tag>>{}(a, b);
            if constexpr (Op == 2) return cnl::custom_operator<ci::multiply_op, cnl::op_value<L, Tag>, cnl::op_value<R, Tag>>{}(a, b);
            if constexpr (Op == 3) return cnl::custom_operator<ci::divide_op, cnl::op_value<L, Tag>, cnl::op_value<R, Tag>>{}(a, b);
            if constexpr (Op == 4) return cnl::custom_operator<ci::shift_left_op, cnl::op_value<L, Tag>, cnl::op_value<R, Tag>>{}(a, b);
            if constexpr (Op == 5) return cnl::custom_operator<ci::minus_op, cnl::op_value<L, Tag>>{}(a);
            if constexpr (Op == 6) return cnl::convert<Tag, R>{}(a);
        } else {
            if constexpr (Op == 0) return ci::to_rep(OL{a} + OR{b});
            if constexpr (Op == 1) return ci::to_rep(OL{a} - OR{b});
            if constexpr (Op == 2) return ci::to_rep(OL{a} * OR{b});
            if constexpr (Op == 3) return ci::to_rep(OL{a} / OR{b});
            if constexpr (Op == 4) return ci::to_rep(OL{a} << b);
            if constexpr (Op == 5) return ci::to_rep(-OL{a});
            if constexpr (Op == 6) return ci::to_rep(OR{a});  // converting constructor from a built-in
        }
    }

    template<int Op>
    static void check_op(L a, R b, Outcome& o)
    {
        using Res = std::remove_cvref_t<decltype(builtin_expr<Op>(a, b))>;
        mpz_class za = to_mpz(a), zb = to_mpz(b), lo = zmin<Res>(), hi = zmax<Res>(), exact;
        int region = 0;
        if constexpr (Op == 3) {
            if (b == 0) return o.discard("zero-divisor");
        }
        if constexpr (Op == 4) {
            if (zb < 0) return o.discard("negative-shift-count");
        }
        switch (Op) {
        case 0: exact = za + zb; break;
        case 1: exact = za - zb; break;
        case 2: exact = za * zb; break;
        case 3: mpz_tdiv_q(exact.get_mpz_t(), za.get_mpz_t(), zb.get_mpz_t()); break;
        case 4:
            if (za == 0)
                exact = 0;
            else if (zb > 300)
                exact = za > 0 ? mpz_class(hi + 1) : mpz_class(lo - 1);  // certainly outside
            else
                exact = za << zb.get_ui();
            break;
        case 5: exact = -za; break;
        default: exact = za; break;
        }
        region = region_of(exact, lo, hi);
        // cause regions the oracle can recognise from the operands alone (DESIGN 3): failures inside a listed
        // region are one root cause whatever their symptom; "none" means no known reason for a failure
        char const* cause = "none";
        constexpr bool res_unsigned = !is_signed_int_v<Res>;
        if constexpr (Op == 5) {
            if (bits_v<L> < bits_v<Res> && ((!is_signed_int_v<L> && a != 0) || (is_signed_int_v<L> && a == int_min<L>())))
                cause = "minus-tested-in-operand-type";
        } else if constexpr (Op == 4) {
            // (under the saturated tag the reported negative overflow saturates to lowest(), which is the exact result)
            if (is_signed_int_v<Res> && za == -1 && zb == bits_v<Res> - 1 && tag_info<Tag>::kind != 0) cause = "shl-minus-one-by-digits";
            if (za == 0 && zb >= bits_v<Res>) cause = "zero-lhs-count-ge-width";
        } else if constexpr (Op <= 3) {
            // (the predicate is only evaluated when the operand digits together exceed the result's)
            if (Op == 2 && is_signed_int_v<Res> && is_signed_int_v<R> && zb == -1 && za >= 0
                && (bits_v<L> - is_signed_int_v<L>) + (bits_v<R> - 1) > bits_v<Res> - 1)
                cause = "nonnegative-times-minus-one";
            else if (mixed && res_unsigned && (za < 0 || zb < 0))
                cause = mixed_negative_cell(za < 0, region, (za < 0 ? zb : za) == 0, wrap_agrees(Op, za, zb, exact, region, lo, hi, tag_info<Tag>::kind));
            else if (Op == 3 && mixed && is_signed_int_v<L> && bits_v<R> >= 32 && zb == zmax<R>() && za == zmin<Res>())
                cause = "lowest-by-all-ones";  // rhs == -1 holds after conversion of -1 to unsigned
            else if (Op == 1 && !mixed && is_signed_int_v<R> && bits_v<R> < bits_v<Res> && bits_v<L> == bits_v<Res> && zb < 0 && za - zb > zmax<R>() && region == 0)
                cause = "rhs-narrower-than-result-negative";  // the predicate compares lhs with max(Rhs) + rhs, not max(result) + rhs
        }
        std::string const prefix = std::string(opname(Op)) + ((mixed && Op <= 3) ? "/mixed/" : "/same/") + cause;
        if (std::string(cause) != "none") o.region = prefix;
        Obs obs;
        observe(o, obs, [&] {
            auto r = cnl_expr<Op>(a, b);
            static_assert(std::is_same_v<std::remove_cvref_t<decltype(r)>, Res>, "result type differs from the built-in expression's");
            return r;
        });
        bool const boundary = a == int_min<L>() || a == int_max<L>() || a == 0 || a == L(-1) || b == int_min<R>() || b == int_max<R>() || b == 0
                           || b == R(-1);
        if (obs.trapped) {
            // undefined behaviour / internal error: violates C07, and C06 as well (neither the exact result nor the
            // tag's overflow handling was delivered)
            o.fclass = prefix + "/" + o.fclass;
            return;
        }
        if constexpr (Total) {
            // shift counts beyond the width have no C06 expectation for lhs == 0 only through UB; here: no trap is all we ask
            return o.pass(boundary, opname(Op));
        } else {
            bool const near = region != 0 || (exact >= hi - 2) || (exact <= lo + 2);
            judge<Tag>(prefix, region, exact, lo, hi, obs, o, near || mixed || bits_v<L> != bits_v<R>, opname(Op));
        }
    }

    static void check(int op, L a, R b, Outcome& o, std::string* d)
    {
        if (d) *d = std::string(opname(op)) + " a=" + istr(a) + " b=" + istr(b);
        o.fp = fpn(a, b, op);
        [&]<int... I>(std::integer_sequence<int, I...>) { ((op == I ? check_op<I>(a, b, o) : void()), ...); }
        (std::make_integer_sequence<int, n_ops>{});
    }

    // operands aimed at the limits of the result type
    template<int Op>
    static void directed(Words& w, L& a, R& b)
    {
        using Res = std::remove_cvref_t<decltype(builtin_expr<Op>(a, b))>;
        mpz_class limit = (w.next() & 1) ? zmax<Res>() : zmin<Res>();
        long dlt = draw_small(w, 0, 3) - 1;
        mpz_class za = to_mpz(a), zb = to_mpz(b), want;
        if constexpr (Op == 0) {
            want = limit - za + dlt;
            if (fits<R>(want)) b = from_mpz<R>(want);
        } else if constexpr (Op == 1) {
            want = za - limit - dlt;
            if (fits<R>(want)) b = from_mpz<R>(want);
        } else if constexpr (Op == 2) {
            if (zb != 0) {
                mpz_tdiv_q(want.get_mpz_t(), limit.get_mpz_t(), zb.get_mpz_t());
                want += dlt;
                if (fits<L>(want)) a = from_mpz<L>(want);
            }
        } else if constexpr (Op == 4) {
            // a just fits / just does not fit after shifting by a valid count
            unsigned n = unsigned(draw_small(w, 0, bits_v<Res>));
            want = (limit >> n) + dlt;
            if (fits<L>(want) && fits<R>(mpz_class(n))) {
                a = from_mpz<L>(want);
                b = static_cast<R>(n);
            }
        } else if constexpr (Op == 6) {
            using Dst = R;
            mpz_class lim2 = (w.next() & 1) ? zmax<Dst>() : zmin<Dst>();
            want = lim2 + dlt;
            if (fits<L>(want)) a = from_mpz<L>(want);
        }
    }
    static void run(Words& w, Outcome& o, std::string* d)
    {
        int op = int(draw_small(w, 0, n_ops - 1));
        unsigned m = unsigned(w.next() % 4);
        L a = draw_int<L>(w);
        R b = draw_int<R>(w);
        if (op == 4) {
            unsigned k = unsigned(w.next() % 8);
            if (k < 6) b = static_cast<R>(draw_small(w, 0, std::min<long>(bits_v<decltype(+a)> + 1, long(int_max<R>() > 200 ? 200 : int_max<R>()))));
            if (!Total && k == 7) b = static_cast<R>(draw_small(w, 0, 3));
        }
        if (m >= 2) [&]<int... I>(std::integer_sequence<int, I...>) { ((op == I ? directed<I>(w, a, b) : void()), ...); }
            (std::make_integer_sequence<int, n_ops>{});
        check(op, a, b, o, d);
    }
    static constexpr std::uint64_t enum_size()
    {
        return (bits_v<L> + bits_v<R> <= 16) ? (std::uint64_t{n_ops} << (bits_v<L> + bits_v<R>)) : 0;
    }
    static void run_enum(std::uint64_t idx, Outcome& o, std::string* d)
    {
        using UL = make_unsigned_t<L>;
        using UR = make_unsigned_t<R>;
        check(int(idx >> (bits_v<L> + bits_v<R>)), static_cast<L>(static_cast<UL>(idx)), static_cast<R>(static_cast<UR>(idx >> bits_v<L>)), o, d);
    }
    static void reg()
    {
        add_site({std::string(Total ? "C07|" : "C06|") + (Route ? "overflow_integer|" : "tagged|") + tag_info<Tag>::name + "|" + tname<L>::get() + "|"
                          + tname<R>::get() + "|" + path_name,
                  run, enum_size(), run_enum});
    }
};

////////////////////////////////////////////////////////////////////////////////
// overflow_integer: compound assignment, ++/--, conversion between overflow_integers and explicit cast back to a built-in.
// x op= y is x = x op y converted back to x's rep under the tag, so overflow is triggered iff the exact result leaves the range of L.
template<class Tag, class L, class R, bool Total>
struct Compound {
    static constexpr int n_ops = 9;
    static char const* opname(int op)
    {
        static char const* n[] = {"+=", "-=", "*=", "++pre", "post++", "--pre", "post--", "convert-wrapper", "cast-to-builtin"};
        return n[op];
    }
    static constexpr bool mixed = is_signed_int_v<L> != is_signed_int_v<R>;
    using OL = cnl::overflow_integer<L, Tag>;
    using OR = cnl::overflow_integer<R, Tag>;
    static void check(int op, L a, R b, Outcome& o, std::string* d)
    {
        if (d) *d = std::string(opname(op)) + " a=" + istr(a) + " b=" + istr(b);
        o.fp = fpn(a, b, op + 100);
        mpz_class za = to_mpz(a), zb = to_mpz(b), exact, lo = zmin<L>(), hi = zmax<L>();
        switch (op) {
        case 0: exact = za + zb; break;
        case 1: exact = za - zb; break;
        case 2: exact = za * zb; break;
        case 3:
        case 4: exact = za + 1; break;
        case 5:
        case 6: exact = za - 1; break;
        case 7: exact = za, lo = zmin<R>(), hi = zmax<R>(); break;  // OR{OL{a}}
        default: exact = za, lo = zmin<R>(), hi = zmax<R>(); break;  // static_cast<R>(OL{a})
        }
        // cause regions of the underlying binary operator (same as Int<>): decided on the built-in expression's result type
        char const* cause = "none";
        if (op <= 2) {
            using Res = decltype(a + b);
            if (op == 2 && is_signed_int_v<Res> && is_signed_int_v<R> && zb == -1 && za >= 0
                && (bits_v<L> - is_signed_int_v<L>) + (bits_v<R> - 1) > bits_v<Res> - 1)
                cause = "nonnegative-times-minus-one";
            else if (mixed && !is_signed_int_v<Res> && (za < 0 || zb < 0))
                cause = mixed_negative_cell(za < 0, region_of(exact, zmin<Res>(), zmax<Res>()), (za < 0 ? zb : za) == 0,
                                            wrap_agrees(op, za, zb, exact, region_of(exact, zmin<Res>(), zmax<Res>()), zmin<Res>(), zmax<Res>(), tag_info<Tag>::kind));
            else if (op == 1 && !mixed && is_signed_int_v<R> && bits_v<R> < bits_v<Res> && bits_v<L> == bits_v<Res> && zb < 0 && za - zb > zmax<R>() && exact <= zmax<Res>())
                cause = "rhs-narrower-than-result-negative";
        }
        // two stages, as "x = x op y converted back" says: the operator in the built-in result type, then the conversion to L
        mpz_class lo1 = lo, hi1 = hi;
        if (op <= 2) {
            using Res = decltype(a + b);
            lo1 = zmin<Res>(), hi1 = zmax<Res>();
        } else if (op <= 6) {
            using Res = decltype(a + 1);
            lo1 = zmin<Res>(), hi1 = zmax<Res>();
        }
        constexpr int kind = tag_info<Tag>::kind;
        int side = 0;  // side of the first stage that triggers
        mpz_class value = exact;
        int r1 = region_of(value, lo1, hi1);
        if (r1) side = r1, value = r1 > 0 ? hi1 : lo1;
        int r2 = region_of(value, lo, hi);
        if (r2) {
            if (!side) side = r2;
            value = r2 > 0 ? hi : lo;
        }
        std::string const prefix = std::string("compound") + opname(op) + (mixed && op <= 2 ? "/mixed/" : "/same/") + cause;
        if (std::string(cause) != "none") o.region = prefix;
        Obs obs;
        mpz_class returned;
        bool have_returned = false;
        observe(o, obs, [&] {
            OL x{a};
            if (op == 0) x += OR{b};
            if (op == 1) x -= OR{b};
            if (op == 2) x *= OR{b};
            if (op == 3) returned = to_mpz(cnl::_impl::to_rep(++x)), have_returned = true;
            if (op == 4) returned = to_mpz(cnl::_impl::to_rep(x++)), have_returned = true;
            if (op == 5) returned = to_mpz(cnl::_impl::to_rep(--x)), have_returned = true;
            if (op == 6) returned = to_mpz(cnl::_impl::to_rep(x--)), have_returned = true;
            if (op == 7) return to_mpz(cnl::_impl::to_rep(OR{x}));
            if (op == 8) return to_mpz(static_cast<R>(x));
            return to_mpz(cnl::_impl::to_rep(x));
        });
        if (obs.trapped) {
            o.fclass = prefix + "/" + o.fclass;
            return;
        }
        if constexpr (Total) {
            return o.pass(a == int_min<L>() || a == int_max<L>() || a == 0, opname(op));
        } else {
            std::string got = obs.signal ? std::string(obs.how) + (obs.signal == 1 ? ":positive" : obs.signal == -1 ? ":negative" : ":other") : "value " + zstr(obs.value);
            if (side == 0) {
                if (obs.signal) return o.fail(prefix + "/in-range-reported", "exact result " + zstr(exact) + " is in range at both stages, got " + got);
                if (obs.value != exact) return o.fail(prefix + "/in-range-wrong-value", "expected " + zstr(exact) + " got " + got);
                if (have_returned) {
                    mpz_class want = (op == 3 || op == 5) ? exact : za;  // pre returns the new value, post the old one
                    if (returned != want) return o.fail(prefix + "/returned-value", "expected " + zstr(want) + " got " + zstr(returned));
                }
                return o.pass(true, opname(op));
            }
            if (kind == 0) {
                if (obs.signal) return o.fail(prefix + "/signalled-under-saturated", got);
                if (obs.value != value) return o.fail(prefix + "/saturated-value-wrong", "expected " + zstr(value) + " got " + got);
                return o.pass(true, "saturated");
            }
            char const* how = kind == 1 ? "throw" : "abort";
            if (!obs.signal) return o.fail(prefix + "/overflow-not-detected", std::string("expected ") + how + " got " + got);
            if (std::string(obs.how) != how) return o.fail(prefix + "/wrong-signal-kind", got);
            if (obs.signal != side) return o.fail(prefix + "/reported-wrong-polarity", got);
            return o.pass(true, "signalled");
        }
    }
    static void run(Words& w, Outcome& o, std::string* d)
    {
        int op = int(draw_small(w, 0, n_ops - 1));
        L a = draw_int<L>(w);
        R b = draw_int<R>(w);
        if (w.next() % 2) {  // aim at the limits of L
            mpz_class limit = (w.next() & 1) ? zmax<L>() : zmin<L>();
            long dlt = draw_small(w, 0, 3) - 1;
            mpz_class want = op == 0 ? mpz_class(limit - to_mpz(a) + dlt) : op == 1 ? mpz_class(to_mpz(a) - limit - dlt) : mpz_class(0);
            if (op <= 1 && fits<R>(want)) b = from_mpz<R>(want);
            if (op >= 3 && op <= 6) a = from_mpz<L>(limit + ((limit > 0) ? -mpz_class(draw_small(w, 0, 1)) : mpz_class(draw_small(w, 0, 1))));
            if (op >= 7) {
                mpz_class l2 = (w.next() & 1) ? zmax<R>() : zmin<R>();
                mpz_class v = l2 + dlt;
                if (fits<L>(v)) a = from_mpz<L>(v);
            }
        }
        check(op, a, b, o, d);
    }
    static constexpr std::uint64_t enum_size() { return (bits_v<L> + bits_v<R> <= 16) ? (std::uint64_t{n_ops} << 16) : 0; }
    static void run_enum(std::uint64_t idx, Outcome& o, std::string* d)
    {
        using UL = make_unsigned_t<L>;
        using UR = make_unsigned_t<R>;
        check(int(idx >> 16), static_cast<L>(static_cast<UL>(idx)), static_cast<R>(static_cast<UR>(idx >> 8)), o, d);
    }
    static void reg()
    {
        add_site({std::string(Total ? "C07|" : "C06|") + "compound|" + tag_info<Tag>::name + "|" + tname<L>::get() + "|" + tname<R>::get() + "|" + path_name, run,
                  enum_size(), run_enum});
    }
};

////////////////////////////////////////////////////////////////////////////////
// floating-point source -> integer destination under an overflow tag
template<class Tag, class F, class D, int Route, bool Total>
struct Flt {
    static void check(F x, Outcome& o, std::string* d)
    {
        if (d) *d = "convert " + fstr(x) + " -> " + tname<D>::get();
        o.fp = fpn(static_cast<long double>(x));
        bool const finite = std::isfinite(x);
        if (!Total && !finite) return o.discard("non-finite");
        mpz_class lo = zmin<D>(), hi = zmax<D>(), expect;
        int region = 0;
        if (finite) {
            mpq_class q = q_of_float(x);
            region = q < mkq(lo) ? -1 : q > mkq(hi) ? 1
                                                     : 0;
            expect = q_trunc(q);
        }
        Obs obs;
        observe(o, obs, [&] {
            if constexpr (Route == 0)
                return cnl::convert<Tag, D>{}(x);
            else
                return cnl::_impl::to_rep(cnl::overflow_integer<D, Tag>{x});
        });
        // the positive overflow test compares with static_cast<F>(max(D)), which rounds up to 2^digits for wide D
        bool const at_rounded_max = finite && region > 0 && x <= static_cast<F>(int_max<D>());
        std::string const prefix = std::string("convert-float/") + (std::isnan(x) ? "nan" : !finite        ? "inf"
                                                                                    : at_rounded_max ? "finite/equals-rounded-max"
                                                                                                     : "finite/none");
        if (obs.trapped) {
            o.fclass = prefix + "/" + o.fclass;
            return;
        }
        if constexpr (Total) {
            return o.pass(!finite || region != 0, !finite ? "non-finite" : "finite");
        } else {
            mpq_class q = q_of_float(x);
            bool near = region != 0 || abs(q - mkq(hi)) < 2 || abs(q - mkq(lo)) < 2;
            judge<Tag>(prefix, region, expect, lo, hi, obs, o, near, "convert-float");
        }
    }
    static void run(Words& w, Outcome& o, std::string* d)
    {
        unsigned m = unsigned(w.next() % 4);
        F x;
        if (m == 0) {
            x = draw_float<F>(w, -4, bits_v<D> + 3, Total);
        } else {
            // values adjacent to the destination limits: limit + k/2 for small k, then a few ulps around
            mpz_class lim = (w.next() & 1) ? zmax<D>() : zmin<D>();
            long k = draw_small(w, 0, 8) - 4;
            long double v = static_cast<long double>(lim.get_d());
            if (bits_v<D> > 53) {
                // build exactly from the mpz
                v = 0;
                mpz_class t = abs(lim);
                long double scale = 1;
                while (t != 0) {
                    mpz_class lowpart = t & 0xffffffffUL;
                    v += scale * static_cast<long double>(lowpart.get_ui());
                    scale *= 4294967296.0L;
                    t >>= 32;
                }
                if (lim < 0) v = -v;
            }
            v += static_cast<long double>(k) * 0.5L;
            x = static_cast<F>(v);
            int ulps = int(draw_small(w, 0, 4)) - 2;
            for (int i = 0; i < (ulps < 0 ? -ulps : ulps); ++i) x = std::nextafter(x, ulps < 0 ? -std::numeric_limits<F>::infinity() : std::numeric_limits<F>::infinity());
        }
        check(x, o, d);
    }
    static void reg()
    {
        add_site({std::string(Total ? "C07|" : "C06|") + (Route ? "overflow_integer|" : "tagged|") + tag_info<Tag>::name + "|" + tname<F>::get() + "|"
                          + tname<D>::get() + "|" + path_name,
                  run, 0, nullptr});
    }
};
////////////////////////////////////////////////////////////////////////////////
// overflow_integer over a representation that is itself a CNL integer wrapper (wide_integer<31>, wide_integer<63>: two's complement,
// so they have a most negative value; elastic_integer: symmetric range). Same contract: exact result, or the tag's overflow
// handling exactly when the exact result leaves numeric_limits of the result's representation. Total: no trap is all that is asked.
template<class Tag, class Rep, bool Total>
struct WrapRep {
    using O = cnl::overflow_integer<Rep, Tag>;
    static constexpr int n_ops = 7;
    static char const* opname(int op)
    {
        static char const* n[] = {"add", "sub", "mul", "div", "minus", "compound/=", "compound+="};
        return n[op];
    }
    template<int Op>
    static auto eval(O const& a, O const& b)
    {
        if constexpr (Op == 0) return a + b;
        if constexpr (Op == 1) return a - b;
        if constexpr (Op == 2) return a * b;
        if constexpr (Op == 3) return a / b;
        if constexpr (Op == 4) return -a;
        if constexpr (Op == 5) {
            O x = a;
            x /= b;
            return x;
        }
        if constexpr (Op == 6) {
            O x = a;
            x += b;
            return x;
        }
    }
    template<int Op>
    static void check_op(mpz_class const& za, mpz_class const& zb, Outcome& o)
    {
        if ((Op == 3 || Op == 5) && zb == 0) return o.discard("zero-divisor");
        O a = make_rep<O>(za), b = make_rep<O>(zb);
        using Res = std::remove_cvref_t<decltype(eval<Op>(a, b))>;
        auto rr = range_of<cnl::_impl::rep_of_t<Res>>();
        mpz_class exact;
        switch (Op) {
        case 0: case 6: exact = za + zb; break;
        case 1: exact = za - zb; break;
        case 2: exact = za * zb; break;
        case 3: case 5: mpz_tdiv_q(exact.get_mpz_t(), za.get_mpz_t(), zb.get_mpz_t()); break;
        default: exact = -za;
        }
        int region = region_of(exact, rr.first, rr.second);
        // cause region (the listed portable-multiply finding; wrapper reps have no intrinsic path): multiply(lhs >= 0, -1) evaluates
        // lowest() / -1 inside the negative-overflow predicate
        char const* cause = (Op == 2 && zb == -1 && za >= 0 && rr.first < 0) ? "nonnegative-times-minus-one" : "none";
        std::string const prefix = std::string(opname(Op)) + "/wrapper-rep/" + cause;
        if (std::string(cause) != "none") o.region = prefix;
        Obs obs;
        observe(o, obs, [&] { return rep_mpz(eval<Op>(a, b)); });
        if (obs.trapped) {
            o.fclass = prefix + "/" + o.fclass;
            return;
        }
        auto lr = range_of<Rep>();
        bool const boundary = za == lr.first || za == lr.second || zb == lr.first || zb == lr.second || zb == -1;
        if constexpr (Total)
            return o.pass(boundary, opname(Op));
        else
            judge<Tag>(prefix, region, exact, rr.first, rr.second, obs, o, boundary || region != 0, opname(Op));
    }
    static void check(int op, mpz_class const& za, mpz_class const& zb, Outcome& o, std::string* d)
    {
        if (d) *d = std::string(opname(op)) + " a=" + zstr(za) + " b=" + zstr(zb);
        o.fp = fpn(za, zb, op);
        [&]<int... I>(std::integer_sequence<int, I...>) { ((op == I ? check_op<I>(za, zb, o) : void()), ...); }
        (std::make_integer_sequence<int, n_ops>{});
    }
    static void run(Words& w, Outcome& o, std::string* d)
    {
        int op = int(draw_small(w, 0, n_ops - 1));
        mpz_class za = draw_rep<Rep>(w), zb = draw_rep<Rep>(w);
        auto lr = range_of<Rep>();
        unsigned m = unsigned(w.next() % 8);
        if (m == 0) za = lr.first;
        if (m == 1) zb = -1;
        if (m == 2) za = lr.first, zb = -1;
        if (m == 3) za = lr.second;
        if (zb < lr.first || zb > lr.second) zb = 1;
        check(op, za, zb, o, d);
    }
    static void reg(char const* name)
    {
        add_site({std::string(Total ? "C07" : "C06") + "|wrapper-rep|" + tag_info<Tag>::name + "|" + name, run, 0, nullptr});
    }
};
////////////////////////////////////////////////////////////////////////////////
// scaled_integer over an overflow_integer: bringing a value to a finer exponent (construction, +, comparison with a finer operand)
// multiplies the checked representation by 2^Gap. Exact when rep * 2^Gap fits the representation, else the tag's handling; never UB,
// whatever the gap (also gaps wider than the representation, where only 0 can be brought over).
template<class Tag, class Rep, int Gap, bool Total>
struct ScaledOvf {
    using O = cnl::overflow_integer<Rep, Tag>;
    using S0 = cnl::scaled_integer<O, cnl::power<0>>;
    using S1 = cnl::scaled_integer<O, cnl::power<-Gap>>;
    static char const* opname(int op)
    {
        static char const* n[] = {"to-finer", "plus-finer-zero", "equals-finer"};
        return n[op];
    }
    static void run(Words& w, Outcome& o, std::string* d)
    {
        int op = int(draw_small(w, 0, 2));
        Rep v = draw_int<Rep>(w);
        unsigned m = unsigned(w.next() % 4);
        if (m == 0) v = 0;
        if (m == 1) v = static_cast<Rep>(draw_small(w, -3, 3));
        if (!is_signed_int_v<Rep> && to_mpz(v) < 0) v = 1;
        mpz_class z = to_mpz(v);
        if (d) *d = std::string(opname(op)) + " gap=" + std::to_string(Gap) + " rep=" + zstr(z);
        o.fp = fpn(z, op, Gap);
        mpz_class exact = z << Gap, lo = zmin<Rep>(), hi = zmax<Rep>();
        int region = region_of(exact, lo, hi);
        std::string const prefix = std::string("scaled-overflow/") + opname(op) + "/none";
        Obs obs;
        observe(o, obs, [&] {
            S0 s0 = cnl::_impl::from_rep<S0>(cnl::_impl::from_rep<O>(v));
            if (op == 0) return rep_mpz(S1{s0});
            if (op == 1) return rep_mpz(S1{s0 + S1{}});
            S1 s1{};
            return mpz_class((s0 == s1) == (v == 0) ? exact : mpz_class(exact + 1));
        });
        if (obs.trapped) {
            o.fclass = prefix + "/" + o.fclass;
            return;
        }
        if constexpr (Total) return o.pass(v == 0 || region != 0, opname(op));
        // exactness is only demanded where the factor 2^Gap exists in the representation (as for C01: beyond that no non-zero value
        // can be brought over, and for zero the pinned tree signals the overflow of the factor: loud, and no UB, which is all C07 asks)
        if (!fits<Rep>(mpz_class(1) << Gap)) return o.discard("alignment-factor-does-not-fit");
        if (op == 2 && region != 0) return o.pass(true, "compared-out-of-range");  // a comparison may or may not signal there: C03's business
        judge<Tag>(prefix, region, exact, lo, hi, obs, o, true, opname(op));
    }
    static void reg(char const*) {}
};
}  // namespace c06

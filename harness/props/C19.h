// C19 — sqrt returns the floor of the square root at the result's resolution
#pragma once
#include "../cnlval.h"
#include "../sweep.h"

namespace c19 {
using namespace vf;

inline void judge(mpz_class const& x, mpz_class const& r, Outcome& o)
{
    if (r < 0) return o.fail("negative-root", "x=" + zstr(x) + " r=" + zstr(r));
    if (r * r > x) return o.fail("root-too-large", "x=" + zstr(x) + " r=" + zstr(r));
    if ((r + 1) * (r + 1) <= x) return o.fail("root-too-small", "x=" + zstr(x) + " r=" + zstr(r));
    mpz_class rt;
    mpz_sqrt(rt.get_mpz_t(), x.get_mpz_t());
    bool square = rt * rt == x;
    bool near_square = square || (rt + 1) * (rt + 1) - 1 == x || rt * rt + 1 == x;
    o.pass(x >= 2, square ? "perfect-square" : near_square ? "square+-1"
                                                           : "other");
}

// draw a non-negative value of `digits` bits, biased to perfect squares and their neighbours
inline mpz_class draw_x(Words& w, int digits)
{
    unsigned m = unsigned(w.next() % 4);
    mpz_class max = (mpz_class(1) << digits) - 1;
    if (m == 0) return draw_mpz(w, digits, false);
    mpz_class r = draw_mpz(w, (digits + 1) / 2, false);
    mpz_class v = r * r + (long(m) - 2);  // r^2 - 1, r^2, r^2 + 1
    if (v < 0) v = 0;
    if (v > max) {
        mpz_class rt;
        mpz_sqrt(rt.get_mpz_t(), max.get_mpz_t());
        v = rt * rt + (long(m) - 2);
        if (v > max) v = max;
    }
    return v;
}

// T: any CNL integer-like type (built-in, elastic_integer, wide_integer, scaled_integer<...>)
// Digits: number of value digits of T's operand range; Kind: 0 integer, 1 elastic (result digits (D+1)/2), 2 scaled
template<class T, int Digits, int Kind, int Exp = 0, int Radix = 2>
struct Sqrt {
    static void check(mpz_class const& x, Outcome& o, std::string* d)
    {
        if (d) *d = "x_rep=" + zstr(x);
        o.fp = fpn(x);
        T in = make_rep<T>(x);
        mpz_class r;
        int own_digits = -1;
        bool ok = guard(o, [&] {
            auto res = cnl::sqrt(in);
            own_digits = cnl::digits_v<decltype(res)>;
            if constexpr (Kind == 1) {
                static_assert(cnl::digits_v<decltype(res)> == (Digits + 1) / 2, "elastic sqrt result digits");
            }
            if constexpr (Kind == 2) {
                using R = decltype(res);
                static_assert(std::is_same_v<cnl::_impl::tag_of_t<R>, cnl::power<Exp / 2, Radix>>, "scaled sqrt result exponent");
            }
            r = rep_mpz(res);
        });
        if (!ok) return;
        if constexpr (Kind == 1) {
            mpz_class lim = (mpz_class(1) << ((Digits + 1) / 2)) - 1;
            if (r > lim) return o.fail("elastic-result-exceeds-halved-digits", "x=" + zstr(x) + " r=" + zstr(r));
        }
        if (own_digits >= 0 && r > (mpz_class(1) << own_digits) - 1)
            return o.fail("result-exceeds-its-own-declared-digits", "x=" + zstr(x) + " r=" + zstr(r) + " digits=" + std::to_string(own_digits));
        judge(x, r, o);
    }
    static void run(Words& w, Outcome& o, std::string* d) { check(draw_x(w, Digits), o, d); }
    static constexpr std::uint64_t enum_size() { return Digits <= 32 ? (std::uint64_t{1} << Digits) : 0; }
    static void run_enum(std::uint64_t idx, Outcome& o, std::string* d) { check(to_mpz(idx), o, d); }
    static void reg(char const* name) { add_site({std::string("C19|") + name, run, enum_size(), run_enum}); }
};
}  // namespace c19

// C15 — literals, parsing and constant-driven deduction yield exactly the written value
#pragma once
#include "../scaledval.h"

#include <climits>

namespace c15 {
using namespace vf;

struct Desc {
    mpq_class value;
    int digits = -1, exponent = 0, radix = 2;
    std::string kind;
};

template<class T>
struct is_constant : std::false_type {
};
template<auto V>
struct is_constant<cnl::constant<V>> : std::true_type {
    static constexpr auto value = V;
};

template<class V>
Desc describe(V const& v)
{
    Desc d;
    using T = std::remove_cvref_t<V>;
    if constexpr (is_constant<T>::value) {
        d.value = mkq(to_mpz(static_cast<i128>(is_constant<T>::value)));
        d.kind = "constant";
    } else if constexpr (scaled_info<T>::is_scaled) {
        d.value = value_of(v);
        d.digits = cnl::digits_v<T>;
        d.exponent = scaled_info<T>::exponent;
        d.radix = scaled_info<T>::radix;
        d.kind = "scaled";
    } else {
        d.value = mkq(rep_mpz(v));
        d.digits = cnl::digits_v<T>;
        d.kind = "integer";
    }
    return d;
}

struct Entry {
    std::string token, expect;  // expect: "num/den"
    int digits, exponent, radix;  // -1 / INT_MIN / 0: not checked
    std::function<Desc()> eval;
};
struct ProgramSite {
    std::string name;
    std::vector<Entry> entries;
    std::size_t registry_index = 0;
};
inline std::map<std::string, ProgramSite>& program_sites()
{
    static std::map<std::string, ProgramSite> m;
    return m;
}
inline std::uint32_t token_key(std::string const& t)  // FNV-1a, so that a witness can name a token whatever its position
{
    std::uint32_t h = 2166136261u;
    for (unsigned char c : t) h = (h ^ c) * 16777619u;
    return h;
}
inline void check_entry(ProgramSite const& s, std::uint64_t idx, Outcome& o, std::string* d)
{
    if (idx >= (std::uint64_t{1} << 32)) {  // witness form: 2^32 + token_key
        std::uint32_t key = static_cast<std::uint32_t>(idx);
        bool found = false;
        for (std::size_t i = 0; i < s.entries.size() && !found; ++i)
            if (token_key(s.entries[i].token) == key) idx = i, found = true;
        if (!found) return o.discard("token-not-in-this-program");
    }
    Entry const& e = s.entries[idx % s.entries.size()];
    if (d) *d = "token " + e.token;
    o.fp = fpn(e.token);
    mpq_class want;
    want.set_str(e.expect, 10);
    want.canonicalize();
    Desc got;
    bool ok = guard(o, [&] { got = e.eval(); });
    // cause region: make_static_integer / make_static_number size the type with used_digits(Value), which for a negative value
    // is the bit length of -Value-1; a negative power of two needs one digit more in a range symmetric about zero
    std::string cause = "";
    if (s.name.find("make_static") != std::string::npos && want < 0 && q_is_int(want)) {
        mpz_class m = abs(want.get_num());
        if (mpz_popcount(m.get_mpz_t()) == 1) cause = "negative-power-of-two/";
    }
    o.region = cause;
    if (!ok) {
        o.fclass = cause + o.fclass;
        return;
    }
    if (got.value != want) return o.fail("value-mismatch", "token " + e.token + " expected " + qstr(want) + " got " + qstr(got.value));
    if (e.digits >= 0 && got.digits != e.digits) return o.fail("digits-mismatch", "token " + e.token + " expected " + std::to_string(e.digits) + " digits, got " + std::to_string(got.digits));
    if (e.exponent != INT_MIN && got.exponent != e.exponent) return o.fail("exponent-mismatch", "token " + e.token + " expected exponent " + std::to_string(e.exponent) + " got " + std::to_string(got.exponent));
    if (e.radix != 0 && got.radix != e.radix) return o.fail("radix-mismatch", "token " + e.token + " expected radix " + std::to_string(e.radix) + " got " + std::to_string(got.radix));
    bool nt = e.token.size() > 16 || e.token.find('\'') != std::string::npos || e.token.find('.') != std::string::npos || e.token[0] == '-';
    o.pass(nt, "token");
}
inline void entry(char const* site, char const* token, char const* expect, int digits, int exponent, int radix, std::function<Desc()> eval)
{
    auto& m = program_sites();
    auto it = m.find(site);
    if (it == m.end()) {
        it = m.emplace(site, ProgramSite{site, {}, 0}).first;
        ProgramSite* ps = &it->second;
        ps->registry_index = registry().size();
        add_site({site, [ps](Words& w, Outcome& o, std::string* d) { check_entry(*ps, w.next(), o, d); }, 0,
                  [ps](std::uint64_t idx, Outcome& o, std::string* d) { check_entry(*ps, idx, o, d); }});
    }
    it->second.entries.push_back({token, expect, digits, exponent, radix, std::move(eval)});
    registry()[it->second.registry_index].enum_size = it->second.entries.size();
}

////////////////////////////////////////////////////////////////////////////////
// run-time cnl::_impl::parse<T>(char const*) on generated well-formed tokens
template<class T>
struct Parse {
    static void run(Words& w, Outcome& o, std::string* d)
    {
        auto range = range_of<T>();
        int maxbits = int(mpz_sizeinbase(range.second.get_mpz_t(), 2));
        bool neg = range.first < 0 && (w.next() & 1);
        int base = (int[]){10, 16, 8, 2}[w.next() % 4];
        // number of digits: biased to the chunk sizes of the parser (18 / 15 / 21 / 63 per chunk) +-1 and multiples
        int stride = base == 10 ? 18 : base == 16 ? 15 : base == 8 ? 21 : 63;
        double bits_per_digit = base == 10 ? 3.3219 : base == 16 ? 4 : base == 8 ? 3 : 1;
        int maxdigits = int(double(maxbits) / bits_per_digit);
        if (maxdigits < 1) maxdigits = 1;
        int nd;
        switch (w.next() % 4) {
        case 0: nd = 1 + int(w.next() % unsigned(maxdigits)); break;
        case 1: nd = stride * (1 + int(w.next() % 3)) + int(w.next() % 3) - 1; break;
        case 2: nd = maxdigits - int(w.next() % 3); break;
        default: nd = 1 + int(w.next() % 6); break;
        }
        if (nd < 1) nd = 1;
        if (nd > maxdigits) nd = maxdigits;
        std::string digits;
        static char const* alphabet = "0123456789abcdef";
        for (int i = 0; i < nd; ++i) {
            unsigned v = unsigned(w.next() % unsigned(base));
            if (i == 0 && nd > 1 && v == 0) v = 1;  // no leading zero (it would change the base of a decimal token)
            char c = alphabet[v];
            if (base == 16 && (w.next() & 1)) c = static_cast<char>(std::toupper(c));
            digits += c;
        }
        mpz_class value(digits, base);
        if (value > range.second) {
            digits = digits.substr(0, digits.size() > 1 ? digits.size() - 1 : 1);
            value = mpz_class(digits, base);
        }
        // separators between digits
        std::string body;
        for (std::size_t i = 0; i < digits.size(); ++i) {
            body += digits[i];
            if (i + 1 < digits.size() && (w.next() % 5) == 0) body += '\'';
        }
        std::string prefix = base == 16 ? ((w.next() & 1) ? "0x" : "0X") : base == 2 ? ((w.next() & 1) ? "0b" : "0B")
                           : base == 8 ? "0" : "";
        if (base == 8 && digits == "0") prefix = "";
        std::string token = (neg ? "-" : "") + prefix + body;
        if (neg) value = -value;
        if (d) *d = "token " + token;
        o.fp = fpn(token);
        mpz_class got;
        bool ok = guard(o, [&] { got = rep_mpz(cnl::_impl::parse<T>(token.c_str())); });
        if (!ok) return;
        if (got != value) return o.fail("parse/value-mismatch", "token " + token + " expected " + zstr(value) + " got " + zstr(got));
        o.pass(nd > stride || body.find('\'') != std::string::npos || neg, base == 10 ? "decimal" : base == 16 ? "hex" : base == 8 ? "octal"
                                                                                                                                      : "binary");
    }
    static void reg(char const* name) { add_site({std::string("C15|parse|") + name, run, 0, nullptr}); }
};

////////////////////////////////////////////////////////////////////////////////
// types deduced from a run-time value hold that value
template<class B>
struct FromValue {
    static void run(Words& w, Outcome& o, std::string* d)
    {
        B b = draw_int<B>(w);
        if (d) *d = "value " + istr(b);
        o.fp = fpn(b);
        mpz_class want = to_mpz(b);
        mpz_class g[5];
        bool ok = guard(o, [&] {
            g[0] = rep_mpz(cnl::make_elastic_integer(b));
            g[1] = value_of(cnl::make_elastic_scaled_integer(b)).get_num();
            g[2] = value_of(cnl::make_scaled_integer(b)).get_num();
            g[3] = rep_mpz(cnl::make_static_integer(b));
#if defined(__clang__)
            g[4] = want;  // Clang 14 has no class template argument deduction for alias templates (P1814)
#else
            cnl::scaled_integer ctad = b;
            g[4] = value_of(ctad).get_num();
#endif
        });
        if (!ok) return;
        static char const* names[] = {"make_elastic_integer", "make_elastic_scaled_integer", "make_scaled_integer", "make_static_integer", "ctad-scaled_integer"};
        for (int i = 0; i < 5; ++i)
            if (g[i] != want) return o.fail(std::string("from-value/") + names[i] + ((i == 4 && !fits<int>(want)) ? "/value-outside-int" : ""), "expected " + zstr(want) + " got " + zstr(g[i]));
        o.pass(b != 0, "from-value");
    }
    static void reg(char const* name) { add_site({std::string("C15|from_value|") + name, run, 0, nullptr}); }
};
}  // namespace c15

// C13 — to_chars never writes outside the caller's buffer and reports failure cleanly
// C14 — text output denotes the value (Prop selects which oracle's verdict the site reports)
#pragma once
#include "../scaledval.h"

#include <charconv>
#include <sstream>

namespace c13 {
using namespace vf;

constexpr int ZONE = 256, BUFMAX = 1200;
#if defined(VF_FUZZ_HEAP)
// libFuzzer / ASan build: an exact-size heap buffer, so that any access outside [first,last) — reads included — is an ASan report
struct GuardedBuffer {
    char* first;
    char* last;
    explicit GuardedBuffer(int len)
        : first(new char[static_cast<std::size_t>(len)])
        , last(first + len)
    {
        std::memset(first, 0xEE, static_cast<std::size_t>(len));
    }
    GuardedBuffer(GuardedBuffer const&) = delete;
    ~GuardedBuffer() { delete[] first; }
    long outside_write() const { return LONG_MIN; }
    bool untouched(char const* from) const
    {
        for (char const* p = from; p < last; ++p)
            if (static_cast<unsigned char>(*p) != 0xEE) return false;
        return true;
    }
};
#else
struct GuardedBuffer {
    unsigned char mem[ZONE + BUFMAX + ZONE];
    char* first;
    char* last;
    explicit GuardedBuffer(int len)
    {
        std::memset(mem, 0xA5, sizeof mem);
        first = reinterpret_cast<char*>(mem) + ZONE;
        last = first + len;
        std::memset(first, 0xEE, static_cast<std::size_t>(len));
    }
    // first byte outside [first,last) that changed, or -1
    long outside_write() const
    {
        auto const* f = reinterpret_cast<unsigned char const*>(first);
        auto const* l = reinterpret_cast<unsigned char const*>(last);
        for (unsigned char const* p = mem; p < mem + sizeof mem; ++p)
            if ((p < f || p >= l) && *p != 0xA5) return long(p - f);
        return LONG_MIN;
    }
    bool untouched(char const* from) const
    {
        for (char const* p = from; p < last; ++p)
            if (static_cast<unsigned char>(*p) != 0xEE) return false;
        return true;
    }
};
#endif

// parse  -? digits* [ '.' digits* ] [ 'e' -? digits ]  (at least one digit) into an exact rational; false if malformed
inline bool parse_decimal(std::string const& s, mpq_class& out, int& frac_digits_printed, int& exp10)
{
    std::size_t i = 0;
    bool neg = false;
    if (i < s.size() && s[i] == '-') neg = true, ++i;
    std::string digits;
    int frac = 0;
    bool any = false;
    while (i < s.size() && std::isdigit(static_cast<unsigned char>(s[i]))) digits += s[i++], any = true;
    if (i < s.size() && s[i] == '.') {
        ++i;
        while (i < s.size() && std::isdigit(static_cast<unsigned char>(s[i]))) digits += s[i++], ++frac, any = true;
    }
    if (!any) return false;
    long e = 0;
    if (i < s.size() && s[i] == 'e') {
        ++i;
        bool eneg = false;
        if (i < s.size() && s[i] == '-') eneg = true, ++i;
        if (i >= s.size()) return false;
        std::string ed;
        while (i < s.size() && std::isdigit(static_cast<unsigned char>(s[i]))) ed += s[i++];
        if (ed.empty() || ed.size() > 6) return false;
        e = std::stol(ed);
        if (eneg) e = -e;
    }
    if (i != s.size()) return false;
    mpz_class m(digits.empty() ? "0" : digits, 10);
    mpq_class v = mkq(m) * qpow(10, int(e) - frac);
    out = neg ? mpq_class(-v) : v;
    frac_digits_printed = frac;
    exp10 = int(e);
    return true;
}

// decimal shape of an exact value: V = sign * m * 10^e with m not divisible by 10; returns false if V is not a finite decimal
inline bool decimal_shape(mpq_class const& v, mpz_class& m, long& e)
{
    mpz_class num = abs(v.get_num()), den = v.get_den();
    long twos = 0, fives = 0;
    while (den % 2 == 0) den /= 2, ++twos;
    while (den % 5 == 0) den /= 5, ++fives;
    if (den != 1) return false;
    long k = twos > fives ? twos : fives;
    m = num * zpow(2, static_cast<unsigned long>(k - twos)) * zpow(5, static_cast<unsigned long>(k - fives));
    e = -k;
    if (m == 0) {
        e = 0;
        return true;
    }
    while (m % 10 == 0) m /= 10, ++e;
    return true;
}
// lengths of the exact expansion the way CNL lays text out (no leading 0 before the point, d.ddde[-]n)
inline long len_fixed(mpz_class const& m, long e, bool neg)
{
    long nd = long(m.get_str().size());
    long r;
    if (e >= 0)
        r = nd + e;
    else {
        long ni = nd + e;
        r = ni > 0 ? nd + 1 : 1 + (-ni) + nd;
    }
    return r + (neg ? 1 : 0);
}
inline long len_sci(mpz_class const& m, long e, bool neg)
{
    long nd = long(m.get_str().size());
    long ex = e + nd - 1;
    return nd + 2 + long(std::to_string(ex).size()) + (neg ? 1 : 0);
}

template<class T>
constexpr bool is_scaled = scaled_info<T>::is_scaled;

// T: the number type; Prop: 13 or 14; WithBase: built-in integer (to_chars takes a base)
template<class T, int Prop, bool WithBase>
struct Chars {
    using SI = scaled_info<T>;
    using Rep = typename SI::rep;
    static constexpr int capacity = cnl::_impl::to_chars_capacity<T>{}();

    static void check(mpz_class const& z, int len, int base, Outcome& o, std::string* d)
    {
        if (d) *d = "rep=" + zstr(z) + " buffer=" + std::to_string(len) + " base=" + std::to_string(base);
        o.fp = fpn(z, len, base);
        T value = make_rep<T>(z);
        mpq_class V = mkq(z) * qpow(SI::radix, SI::exponent);
        GuardedBuffer gb(len);
        std::to_chars_result res{};
        bool ok = guard(o, [&] {
            if constexpr (WithBase)
                res = cnl::to_chars(gb.first, gb.last, value, base);
            else
                res = cnl::to_chars(gb.first, gb.last, value);
        });
        // cause regions recognisable from the input
        std::string cause = "";
        if constexpr (is_scaled<T>) {
            if (z != 0 && len - (z < 0 ? 1 : 0) <= 4) cause = "tiny-buffer/";
            // descale works in an int64 significand and treats anything above max/10 as "no room": a positive-exponent
            // value whose rep already exceeds that loses low digits even when the result has <= 18 significant digits
            if (SI::exponent > 0 && abs(z) > zmax<std::int64_t>() / 10) cause += "positive-exponent-rep-above-significand-headroom/";
            // the most negative rep of a 32/64-bit scaled_integer reaches the integer to_chars (the listed most-negative finding)
            if constexpr (is_native_int_v<Rep>) {
                if (is_signed_int_v<Rep> && bits_v<Rep> >= 32 && z == zmin<Rep>()) cause = "most-negative/" + cause;
            }
        } else {
            if (is_signed_int_v<decltype(+std::declval<std::conditional_t<is_native_int_v<Rep>, Rep, int>>())> && is_native_int_v<Rep> && bits_v<Rep> >= 32 && z == zmin<std::conditional_t<is_native_int_v<Rep>, Rep, int>>())
                cause = "most-negative/";
            if constexpr (!is_native_int_v<Rep>) {
                auto r = range_of<Rep>();
                if (r.first < 0 && z == r.first && r.first == -r.second - 1) cause = "most-negative/";
            }
        }
        o.region = cause;
        long ow = gb.outside_write();
        if (ow != LONG_MIN) return o.fail(cause + "write-outside-buffer", "byte at offset " + std::to_string(ow) + " relative to first was modified (buffer length " + std::to_string(len) + ")");
        if (!ok) {
            o.fclass = cause + o.fclass;
            return;
        }
        bool const success = res.ec == std::errc{};
        if (success) {
            if (!(res.ptr > gb.first && res.ptr <= gb.last)) return o.fail(cause + "success-pointer-out-of-range", "ptr - first = " + std::to_string(res.ptr ? res.ptr - gb.first : -999999));
            if (!gb.untouched(res.ptr)) return o.fail(cause + "scribble-after-end", "bytes in [ptr,last) were modified");
        } else {
            if (res.ec != std::errc::value_too_large) return o.fail(cause + "unexpected-error-code", std::to_string(int(res.ec)));
            if (res.ptr != gb.last) return o.fail(cause + (res.ptr == nullptr ? "failure-pointer-is-null" : "failure-pointer-not-last"), "ec=value_too_large");
        }
        std::string text = success ? std::string(gb.first, res.ptr) : std::string();

        // fixed-capacity variants always succeed and print the same text as to_chars with a buffer of the static capacity
        std::string st_text, os_text, str_text, cap_text;
        bool cap_ok = false;
        bool const with_variants = base == 10 && (len == capacity || (z % 7 == 3));  // the variants do not depend on the buffer length
        bool os_ok = false;
        if (with_variants) {
            // operator<< on its own: it need not go through to_chars (wide_integer streams through its storage type), so a
            // failure of the other variants must not hide it
            Outcome o3;
            os_ok = guard(o3, [&] {
                using cnl::operator<<;  // 128-bit built-ins are streamed by an overload in namespace cnl
                std::ostringstream ss;
                ss << value;
                os_text = ss.str();
            });
            Outcome o2;
            bool ok2 = guard(o2, [&] {
                auto r = cnl::to_chars_static(value);
                st_text.assign(r.chars.data(), static_cast<std::size_t>(r.length));
                if constexpr (is_scaled<T>) str_text = cnl::to_string(value);
                GuardedBuffer g2(capacity);
                std::to_chars_result r2{};
                if constexpr (WithBase)
                    r2 = cnl::to_chars(g2.first, g2.last, value, 10);
                else
                    r2 = cnl::to_chars(g2.first, g2.last, value);
                cap_ok = r2.ec == std::errc{};
                if (cap_ok) cap_text.assign(g2.first, r2.ptr);
            });
            if constexpr (Prop == 14 && !is_scaled<T>) {
                // integers: the streamed text is the canonical numeral, whatever the other variants do
                if (os_ok && !(is_native_int_v<Rep> && bits_v<std::conditional_t<is_native_int_v<Rep>, Rep, int>> == 8) && os_text != z.get_str())
                    return o.fail("ostream-text-mismatch", "expected \"" + z.get_str() + "\" got \"" + os_text + "\"");
            }
            if (!ok2) {
                o.fail(cause + "fixed-capacity-variant/" + o2.fclass, o2.msg);
                return;
            }
            if (!os_ok) {
                o.fail(cause + "fixed-capacity-variant/ostream/" + o3.fclass, o3.msg);
                return;
            }
            if (!cap_ok) return o.fail(cause + "fixed-capacity-variant/static-capacity-too-small", "to_chars fails with a buffer of to_chars_capacity = " + std::to_string(capacity));
        }

        if constexpr (Prop == 13) {
            long need = long(text.size());
            bool nt = len <= 2 || !success || std::labs(long(len) - need) <= 2;
            return o.pass(nt, !success ? "failed-cleanly" : len <= 2 ? "tiny-buffer"
                                                            : nt     ? "near-exact-fit"
                                                                     : "roomy");
        } else {
            if (!success) return o.discard("to_chars-failed");
            if (with_variants) {
                if (st_text != cap_text) return o.fail(cause + "to_chars_static-differs", "\"" + st_text + "\" vs \"" + cap_text + "\"");
                // (streaming a built-in char type prints a character: standard behaviour, nothing to do with CNL)
                if (!(is_native_int_v<Rep> && !is_scaled<T> && bits_v<std::conditional_t<is_native_int_v<Rep>, Rep, int>> == 8) && os_text != cap_text) return o.fail(cause + "ostream-differs", "\"" + os_text + "\" vs \"" + cap_text + "\"");
                if (is_scaled<T> && str_text != cap_text) return o.fail(cause + "to_string-differs", "\"" + str_text + "\" vs \"" + cap_text + "\"");
            }
            if constexpr (!is_scaled<T>) {
                std::string expect = z.get_str(base);
                if (text != expect) return o.fail(cause + "integer-text-mismatch", "expected \"" + expect + "\" got \"" + text + "\"");
                return o.pass(z < 0 || abs(z) > 9, z < 0 ? "negative-integer" : "integer");
            } else {
                mpq_class Tq;
                int fd = 0, e10 = 0;
                if (!parse_decimal(text, Tq, fd, e10)) return o.fail(cause + "malformed-text", "\"" + text + "\"");
                if (Tq != 0 && sgn(Tq) != sgn(V)) return o.fail(cause + "sign-mismatch", "\"" + text + "\" for " + qstr(V));
                if (abs(Tq) > abs(V)) return o.fail(cause + "magnitude-exceeds-value", "\"" + text + "\" for " + qstr(V));
                mpq_class ulp = qpow(10, e10 - fd);
                // allowance for the documented int64-significand limit: each lossy step of descale loses less than one unit of a
                // significand that is kept above INT64_MAX/100 (relative 1.1e-17): at most ~70 halvings for negative exponents (1e-16 in
                // total), and for positive exponents up to 70 about 22 divisions by ten interleaved with the doublings (5e-16 in total)
                mpq_class slack = ulp + abs(V) * (SI::exponent > 0 ? mkq(5) * qpow(10, -16) : qpow(10, -16));
                if (abs(V) - abs(Tq) >= slack) return o.fail(cause + "not-within-one-unit-of-last-digit", "\"" + text + "\" for " + qstr(V));
                mpz_class m;
                long e = 0;
                bool finite = decimal_shape(V, m, e);
                bool truncated = Tq != V;
                if (finite && long(m.get_str().size()) <= 18) {
                    long need = std::min(len_fixed(m, e, V < 0), len_sci(m, e, V < 0));
                    if (need <= len && truncated) return o.fail(cause + "not-exact-although-it-fits", "\"" + text + "\" for " + qstr(V) + " (needs " + std::to_string(need) + " of " + std::to_string(len) + ")");
                }
                bool sci = text.find('e') != std::string::npos;
                return o.pass(true, truncated ? (sci ? "scientific-truncated" : "fixed-truncated") : (sci ? "scientific-exact" : "fixed-exact"));
            }
        }
    }
    static void run(Words& w, Outcome& o, std::string* d)
    {
        mpz_class z = draw_rep<Rep>(w);
        if (!in_range<Rep>(z)) z = 0;
        unsigned m = unsigned(w.next() % 8);
        if constexpr (is_scaled<T>) {
            // the decimal conversion keeps an int64 significand and multiplies it by ten while it stays below INT64_MAX / 10: reps whose
            // running significand (rep / 2^j for a negative exponent) lands on that limit +- 2
            if (rep_width<Rep>() >= 64 && m == 7) {
                mpz_class t = zmax<std::int64_t>() / 10 + (long(w.next() % 5) - 2);
                unsigned j = unsigned(w.next() % 5);
                mpz_class c = (t << j) + to_mpz(w.next() % (std::uint64_t{1} << j));
                if (w.next() & 1) c = -c;
                if (in_range<Rep>(c)) z = c;
            }
        }
        int maxlen = std::min(capacity + 2, BUFMAX);
        int len = int(w.next() % unsigned(maxlen + 1));
        if (m == 0) len = int(w.next() % 4);
        if (m == 1) len = capacity - int(w.next() % 3);
        if (m == 2) {  // around the exact length needed
            std::string s = z.get_str();
            len = int(s.size()) + int(w.next() % 5) - 2;
        }
        if (len < 0) len = 0;
        if (len > maxlen) len = maxlen;
        int base = 10;
        if (WithBase && (w.next() % 2)) base = 2 + int(w.next() % 35);
        if (WithBase && base != 10) {
            // capacity only covers base 10; keep the buffer within BUFMAX and let short buffers fail cleanly
            len = int(w.next() % 140);
        }
        check(z, len, base, o, d);
    }
    static constexpr std::uint64_t enum_size()
    {
        if constexpr (is_native_int_v<Rep>) return bits_v<Rep> <= 16 ? (std::uint64_t(capacity + 3) << bits_v<Rep>) : 0;
        return 0;
    }
    static void run_enum(std::uint64_t idx, Outcome& o, std::string* d)
    {
        if constexpr (is_native_int_v<Rep>) {
            using U = make_unsigned_t<Rep>;
            check(to_mpz(static_cast<Rep>(static_cast<U>(idx))), int(idx >> bits_v<Rep>), 10, o, d);
        }
    }
    static void reg(char const* name) { add_site({std::string(Prop == 13 ? "C13|" : "C14|") + name, run, enum_size(), run_enum}); }
};
// The static capacity across a run of digit counts: for every N in [Lo, Lo+Count) and T = wide_integer<N[, unsigned]> or
// elastic_integer<N[, unsigned]>, the values with the most decimal digits (the extremes, +-10^k at the top, random ones above
// that) are printed by to_chars into a buffer of to_chars_capacity<T> characters and by to_chars_static; both must succeed
// with the canonical numeral (C14: the text is compared with GMP's).
template<int N, int Kind>
struct cap_type;
template<int N>
struct cap_type<N, 0> {
    using type = cnl::wide_integer<N>;
};
template<int N>
struct cap_type<N, 1> {
    using type = cnl::wide_integer<N, unsigned>;
};
template<int N>
struct cap_type<N, 2> {
    using type = cnl::elastic_integer<N>;
};
template<int N>
struct cap_type<N, 3> {
    using type = cnl::elastic_integer<N, unsigned>;
};
template<int Prop, int Lo, int Count, int Kind>
struct CapSweep {
    template<int N>
    static void one(unsigned kind, std::uint64_t r0, std::uint64_t r1, Outcome& o, std::string* d)
    {
        using T = typename cap_type<N, Kind>::type;
        constexpr int capacity = cnl::_impl::to_chars_capacity<T>{}();
        auto range = range_of<T>();
        mpz_class top = range.second, bottom = range.first;
        // largest power of ten inside the range
        mpz_class p10 = 1;
        while (p10 * 10 <= top) p10 *= 10;
        mpz_class z;
        bool neg = bottom < 0 && (r0 & 1);
        mpz_class const& lim = neg ? bottom : top;
        switch (kind % 6) {
        case 0: z = lim; break;
        case 1: z = neg ? mpz_class(-p10) : p10; break;
        case 2: z = (neg ? mpz_class(-p10) : p10) + (neg ? 1 : -1); break;  // one digit fewer
        case 3: z = lim - (neg ? -1 : 1) * mpz_class(to_mpz(r1 % 1000)); break;
        case 4: {  // anywhere between 10^k and the extreme
            mpz_class span = abs(lim) - p10 + 1;
            mpz_class off = ((mpz_class(to_mpz(r0)) << 64) + to_mpz(r1)) * span >> 128;
            z = p10 + off;
            if (neg) z = -z;
            break;
        }
        default: {  // anywhere
            mpz_class span = abs(lim) + 1;
            z = ((mpz_class(to_mpz(r0)) << 64) + to_mpz(r1)) * span >> 128;
            if (neg) z = -z;
        }
        }
        if (z > top) z = top;
        if (z < bottom) z = bottom;
        if (d) *d = "N=" + std::to_string(N) + " capacity=" + std::to_string(capacity) + " value=" + zstr(z);
        o.fp = fpn(z, N, Kind);
        T value = make_rep<T>(z);
        std::string expect = z.get_str();
        std::string cap_text, st_text;
        bool cap_ok = false;
        long ow = LONG_MIN;
        int st_len = 0;
        bool ok = guard(o, [&] {
            GuardedBuffer g(capacity);
            auto r = cnl::to_chars(g.first, g.last, value);
            ow = g.outside_write();
            cap_ok = r.ec == std::errc{};
            if (cap_ok && r.ptr >= g.first && r.ptr <= g.last) cap_text.assign(g.first, r.ptr);
            auto s = cnl::to_chars_static(value);
            st_len = int(s.length);
            st_text.assign(s.chars.data(), std::min<std::size_t>(s.chars.size(), static_cast<std::size_t>(std::max(st_len, 0))));
        });
        std::string os_text;
        Outcome o3;
        bool os_ok = guard(o3, [&] {
            std::ostringstream ss;
            ss << value;
            os_text = ss.str();
        });
        std::string const cause0 = (bottom < 0 && z == bottom && bottom == -top - 1) ? "most-negative/" : "";
        if (!os_ok) return o.fail(cause0 + "capacity-sweep/ostream/" + o3.fclass, o3.msg);
        if (Prop == 14 && os_text != expect) return o.fail(cause0 + "capacity-sweep/ostream-text-mismatch", "expected \"" + expect + "\" got \"" + os_text + "\"");
        // the most negative value of a two's complement type is a listed finding of its own (to_chars negates it)
        std::string const cause = (bottom < 0 && z == bottom && bottom == -top - 1) ? "most-negative/" : "";
        o.region = cause;
        if (ow != LONG_MIN) return o.fail(cause + "capacity-sweep/write-outside-buffer", "offset " + std::to_string(ow));
        if (!ok) {
            o.fclass = cause + "capacity-sweep/" + o.fclass;
            return;
        }
        if (!cap_ok) return o.fail(cause + "capacity-sweep/static-capacity-too-small", "to_chars fails with a buffer of to_chars_capacity = " + std::to_string(capacity) + " for a value of " + std::to_string(expect.size()) + " characters");
        if (st_len > capacity || st_len <= 0) return o.fail(cause + "capacity-sweep/to_chars_static-length-out-of-range", "length " + std::to_string(st_len) + " capacity " + std::to_string(capacity));
        if constexpr (Prop == 14) {
            if (cap_text != expect) return o.fail(cause + "capacity-sweep/integer-text-mismatch", "expected \"" + expect + "\" got \"" + cap_text + "\"");
            if (st_text != expect) return o.fail(cause + "capacity-sweep/to_chars_static-differs", "expected \"" + expect + "\" got \"" + st_text + "\"");
        }
        bool full = int(expect.size()) == capacity;
        o.pass(full || kind % 6 < 4, full ? "fills-the-capacity" : int(expect.size()) == capacity - 1 ? "one-spare" : "spare");
    }
    template<int... I>
    static void dispatch(int idx, unsigned kind, std::uint64_t r0, std::uint64_t r1, Outcome& o, std::string* d, std::integer_sequence<int, I...>)
    {
        (void)((idx == I ? (one<Lo + I>(kind, r0, r1, o, d), true) : false) || ...);
    }
    static void run(Words& w, Outcome& o, std::string* d)
    {
        int idx = int(w.next() % unsigned(Count));
        unsigned kind = unsigned(w.next() % 6);
        std::uint64_t r0 = w.next(), r1 = w.next();
        dispatch(idx, kind, r0, r1, o, d, std::make_integer_sequence<int, Count>{});
    }
    static constexpr std::uint64_t enum_size() { return std::uint64_t(Count) * 4 * 2; }
    static void run_enum(std::uint64_t i, Outcome& o, std::string* d)
    {
        dispatch(int(i / 8), unsigned(i % 4), (i / 4) % 2, 0, o, d, std::make_integer_sequence<int, Count>{});
    }
    static void reg(char const* name) { add_site({std::string(Prop == 13 ? "C13|capsweep|" : "C14|capsweep|") + name, run, enum_size(), run_enum}); }
};
}  // namespace c13

// C10 — wide_integer behaves as an N-bit two's-complement integer for any N
#pragma once
#include "../floatval.h"
#include "../sweep.h"
#include "../scaledval.h"

#include <bit>
#include <sstream>

namespace c10 {
using namespace vf;

// WithNot: operator~ of multi-word wide_integer is ill-formed on the pinned tree (uintwide_t::operator~ is a non-const member)
// WithInt: wide op built-in integer is only well-formed on the pinned tree when the limb type matches the promoted built-in
template<int D, class Narrowest, bool WithNot, bool WithInt = false>
struct Wide {
    using T = cnl::wide_integer<D, Narrowest>;
    using Rep = cnl::_impl::rep_of_t<T>;
    static constexpr bool is_signed = cnl::numbers::signedness_v<Narrowest>;
    static constexpr int W = rep_width<Rep>();  // storage width in bits
    enum { ADD,
           SUB,
           MUL,
           DIV,
           MOD,
           NEG,
           NOT,
           AND,
           OR,
           XOR,
           SHL,
           SHR,
           CMP,
           INC,
           DEC,
           FROM_INT,
           TO_INT,
           TO_FLOAT,
           FROM_FLOAT,
           TEXT,
           LIMITS,
           ADD_INT,
           MUL_INT,
           DIV_INT,
           MOD_INT,
           A_ADD,
           A_SUB,
           A_MUL,
           A_DIV,
           A_MOD,
           WIDEN,
           N_OPS };
    static char const* opname(int op)
    {
        static char const* n[] = {"+", "-", "*", "/", "%", "neg", "~", "&", "|", "^", "<<", ">>", "cmp", "++", "--", "from-int", "to-int",
                                  "to-float", "from-float", "text", "numeric_limits", "+int", "*int", "/int", "%int", "+=", "-=", "*=", "/=", "%=", "widen"};
        return n[op];
    }
    // reduce to the W-bit two's-complement range
    static mpz_class reduce(mpz_class const& z)
    {
        mpz_class m = mpz_class(1) << W, r = z % m;
        if (r < 0) r += m;
        if (is_signed && r >= (m >> 1)) r -= m;
        return r;
    }
    static mpz_class dmax() { return (mpz_class(1) << D) - 1; }

    static void check(int op, mpz_class const& za, mpz_class const& zb, unsigned n, Outcome& o, std::string* d)
    {
        if (d) *d = std::string(opname(op)) + " a=" + zstr(za) + " b=" + zstr(zb) + " n=" + std::to_string(n);
        o.fp = fpn(za, zb, op, n);
        if ((op == DIV || op == MOD || op == A_DIV || op == A_MOD) && zb == 0) return o.discard("zero-divisor");
        if constexpr (!is_uintwide_v<Rep> && is_signed) {
            // single-word storage (a built-in integer): a result that leaves the storage is built-in signed overflow (UB), outside the property
            mpz_class r = op == ADD ? mpz_class(za + zb) : op == SUB ? mpz_class(za - zb) : op == MUL ? mpz_class(za * zb) : op == SHL ? mpz_class(za << n)
                        : op == NEG ? mpz_class(-za) : op == INC ? mpz_class(za + 1) : op == DEC ? mpz_class(za - 1) : op == A_ADD ? mpz_class(za + zb) : op == A_SUB ? mpz_class(za - zb) : op == A_MUL ? mpz_class(za * zb) : mpz_class(0);
            if (op == ADD_INT || op == MUL_INT) {
                mpz_class zk = to_mpz(wrap_to<int>(zb));
                r = op == ADD_INT ? mpz_class(za + zk) : mpz_class(za * zk);
            }
            if (r != reduce(r) || (op == SHL && za < 0)) return o.discard("single-word-storage-overflow");
            // most negative value of the storage word divided by -1 (by a wide or built-in -1): built-in overflow as well
            if (za == -(mpz_class(1) << (W - 1))) {
                bool const wide_div = op == DIV || op == MOD || op == A_DIV || op == A_MOD;
                bool const int_div = op == DIV_INT || op == MOD_INT;
                if ((wide_div && zb == -1) || (int_div && to_mpz(wrap_to<int>(zb)) == -1)) return o.discard("single-word-storage-overflow");
            }
        }
        T a = make_rep<T>(za), b = make_rep<T>(zb);
        mpz_class expect, got;
        std::string fail_detail;
        bool ok = guard(o, [&] {
            switch (op) {
            case ADD: expect = reduce(za + zb), got = rep_mpz(a + b); break;
            case SUB: expect = reduce(za - zb), got = rep_mpz(a - b); break;
            case MUL: expect = reduce(za * zb), got = rep_mpz(a * b); break;
            case DIV: {
                mpz_class q;
                mpz_tdiv_q(q.get_mpz_t(), za.get_mpz_t(), zb.get_mpz_t());
                expect = reduce(q), got = rep_mpz(a / b);
                break;
            }
            case MOD: {
                mpz_class r;
                mpz_tdiv_r(r.get_mpz_t(), za.get_mpz_t(), zb.get_mpz_t());
                expect = reduce(r), got = rep_mpz(a % b);
                break;
            }
            case NEG: expect = reduce(-za), got = rep_mpz(-a); break;
            case NOT:
                if constexpr (WithNot) {
                    expect = reduce(-za - 1), got = rep_mpz(~a);
                } else {
                    expect = 0, got = 0;
                    fail_detail = "skip";
                }
                break;
            case AND: {
                mpz_class m = (mpz_class(1) << W) - 1, x = za & m, y = zb & m;  // two's complement bit patterns
                expect = reduce(x & y), got = rep_mpz(a & b);
                break;
            }
            case OR: {
                mpz_class m = (mpz_class(1) << W) - 1, x = za & m, y = zb & m;
                expect = reduce(x | y), got = rep_mpz(a | b);
                break;
            }
            case XOR: {
                mpz_class m = (mpz_class(1) << W) - 1, x = za & m, y = zb & m;
                expect = reduce(x ^ y), got = rep_mpz(a ^ b);
                break;
            }
            case SHL: expect = reduce(za << n), got = rep_mpz(a << int(n)); break;
            case SHR: {
                mpz_class t;
                mpz_fdiv_q_2exp(t.get_mpz_t(), za.get_mpz_t(), n);  // arithmetic shift of negatives
                expect = reduce(t), got = rep_mpz(a >> int(n));
                break;
            }
            case CMP: {
                int ord = cmp(za, zb);
                bool e[6] = {ord == 0, ord != 0, ord < 0, ord <= 0, ord > 0, ord >= 0};
                bool g[6] = {a == b, a != b, a < b, a <= b, a > b, a >= b};
                expect = 0, got = 0;
                for (int i = 0; i < 6; ++i)
                    if (e[i] != g[i]) got = i + 1;
                if constexpr (WithInt) {
                    // the same against a built-in integer on either side (k == a whenever a fits: the tie is where >, >= differ)
                    using K = std::conditional_t<is_signed, int, unsigned>;
                    K k = fits<K>(za) && (n % 3 != 0) ? from_mpz<K>(za) : wrap_to<K>(zb);
                    int o2 = cmp(za, to_mpz(k));
                    bool e2[6] = {o2 == 0, o2 != 0, o2 < 0, o2 <= 0, o2 > 0, o2 >= 0};
                    bool g2[6] = {a == k, a != k, a < k, a <= k, a > k, a >= k};
                    bool g3[6] = {k == a, k != a, k > a, k >= a, k < a, k <= a};
                    for (int i = 0; i < 6; ++i) {
                        if (e2[i] != g2[i]) got = 10 + i, fail_detail = "wide cmp built-in " + std::to_string(k);
                        if (e2[i] != g3[i]) got = 20 + i, fail_detail = "built-in cmp wide " + std::to_string(k);
                    }
                }
                break;
            }
            case INC: {
                T x = a;
                T r1 = ++x;
                T y = a;
                T r2 = y++;
                expect = reduce(za + 1), got = rep_mpz(x);
                if (rep_mpz(r1) != expect || rep_mpz(r2) != za || rep_mpz(y) != expect) fail_detail = "pre/post increment disagree";
                break;
            }
            case DEC: {
                T x = a;
                T r1 = --x;
                T y = a;
                T r2 = y--;
                expect = reduce(za - 1), got = rep_mpz(x);
                if (rep_mpz(r1) != expect || rep_mpz(r2) != za || rep_mpz(y) != expect) fail_detail = "pre/post decrement disagree";
                break;
            }
            case FROM_INT: {
                // zb carries a built-in value (64 or 128 bit)
                if (fits<std::int64_t>(zb)) {
                    std::int64_t v = from_mpz<std::int64_t>(zb);
                    if (!is_signed && v < 0) v = -(v + 1);
                    if (to_mpz(v) > dmax()) v = 1;
                    expect = to_mpz(v), got = rep_mpz(T{v});
                    if (fail_detail.empty() && rep_mpz(T{static_cast<int>(v % 1000)}) != to_mpz(static_cast<int>(v % 1000)) && (is_signed || v >= 0)) fail_detail = "from int";
                } else {
                    u128 v = wrap_to<u128>(zb);
                    if (to_mpz(v) > dmax()) v >>= (128 - (D < 128 ? D : 127));
                    expect = to_mpz(v), got = rep_mpz(T{v});
                }
                break;
            }
            case TO_INT: {
                // in-range values only: the conversion must preserve the value
                if (fits<std::int64_t>(za)) {
                    expect = za, got = to_mpz(static_cast<std::int64_t>(a));
                } else if (fits<u128>(za)) {
                    expect = za, got = to_mpz(static_cast<u128>(a));
                } else if (fits<i128>(za)) {
                    expect = za, got = to_mpz(static_cast<i128>(a));
                } else {
                    expect = 0, got = 0;
                    fail_detail = "skip";
                }
                break;
            }
            case TO_FLOAT: {
                // faithful rounding: the result is one of the two floating-point neighbours of the exact value
                auto faithful = [&](auto g, auto tag) {
                    using F = decltype(tag);
                    mpq_class v = mkq(za);
                    mpfr_t x;
                    mpfr_init2(x, std::numeric_limits<F>::digits);
                    mpfr_set_q(x, v.get_mpq_t(), MPFR_RNDD);
                    long double lo = mpfr_get_ld(x, MPFR_RNDD);
                    mpfr_set_q(x, v.get_mpq_t(), MPFR_RNDU);
                    long double hi = mpfr_get_ld(x, MPFR_RNDU);
                    mpfr_clear(x);
                    long double gl = static_cast<long double>(g);
                    return gl == lo || gl == hi;
                };
                expect = 0, got = 0;
                if (D <= 1000) {  // double / long double cannot hold more than 2^1024 / 2^16384
                    if (!faithful(static_cast<double>(a), double{})) got = 2;
                    if (D <= 120 && !faithful(static_cast<float>(a), float{})) got = 1;
                }
                if (!faithful(static_cast<long double>(a), static_cast<long double>(0))) got = 3;
                break;
            }
            case FROM_FLOAT: {
                // zb supplies mantissa bits, n the exponent: x = m * 2^e with |x| < 2^D
                long double m = static_cast<long double>(wrap_to<std::uint64_t>(zb));
                int e = int(n % unsigned(D + 8)) - 70;
                long double x = std::ldexp(m, e);
                if (is_signed && (n & 0x10000)) x = -x;
                double xd = static_cast<double>(x);
                if (!std::isfinite(xd) || !std::isfinite(x)) {
                    fail_detail = "skip";
                    break;
                }
                mpz_class t = q_trunc(q_of_float(xd));
                if (abs(t) > dmax()) {
                    fail_detail = "skip";
                    break;
                }
                expect = t, got = rep_mpz(T{xd});
                mpz_class tl = q_trunc(q_of_float(x));
                if (abs(tl) <= dmax() && rep_mpz(T{x}) != tl) fail_detail = "from long double: expected " + zstr(tl) + " got " + zstr(rep_mpz(T{x}));
                break;
            }
            case TEXT: {
                std::ostringstream ss;
                ss << a;
                expect = za;
                std::string s = ss.str();
                if (s != za.get_str()) {
                    got = za + 1;
                    fail_detail = "text \"" + s + "\"";
                } else
                    got = za;
                break;
            }
            case ADD_INT:
            case MUL_INT:
            case DIV_INT:
            case MOD_INT: {
                if constexpr (!WithInt) {
                    expect = 0, got = 0;
                    fail_detail = "skip";
                    break;
                } else {
                // wide op built-in integer: the result is reduced to the storage width of the result's own type
                using K = std::conditional_t<is_signed, int, unsigned>;  // same signedness: a signed operand would add a sign bit to an unsigned type
                K k = wrap_to<K>(zb);
                if ((op == DIV_INT || op == MOD_INT) && k == 0) k = 3;
                mpz_class zk = to_mpz(k), ex;
                auto finish = [&](auto const& r) {
                    using R = std::remove_cvref_t<decltype(r)>;
                    constexpr int RW = rep_width<cnl::_impl::rep_of_t<R>>();
                    constexpr bool rs = cnl::numbers::signedness_v<R>;
                    mpz_class m = mpz_class(1) << RW, v = ex % m;
                    if (v < 0) v += m;
                    if (rs && v >= (m >> 1)) v -= m;
                    expect = v;
                    got = rep_mpz(r);
                };
                if (op == ADD_INT) ex = za + zk, finish(a + k);
                if (op == MUL_INT) ex = za * zk, finish(a * k);
                if (op == DIV_INT) mpz_tdiv_q(ex.get_mpz_t(), za.get_mpz_t(), zk.get_mpz_t()), finish(a / k);
                if (op == MOD_INT) mpz_tdiv_r(ex.get_mpz_t(), za.get_mpz_t(), zk.get_mpz_t()), finish(a % k);
                }
                break;
            }
            case A_ADD:
            case A_SUB:
            case A_MUL:
            case A_DIV:
            case A_MOD: {
                if ((op == A_DIV || op == A_MOD) && zb == 0) {
                    fail_detail = "skip";
                    break;
                }
                T x = a;
                mpz_class ex;
                if (op == A_ADD) x += b, ex = za + zb;
                if (op == A_SUB) x -= b, ex = za - zb;
                if (op == A_MUL) x *= b, ex = za * zb;
                if (op == A_DIV) x /= b, mpz_tdiv_q(ex.get_mpz_t(), za.get_mpz_t(), zb.get_mpz_t());
                if (op == A_MOD) x %= b, mpz_tdiv_r(ex.get_mpz_t(), za.get_mpz_t(), zb.get_mpz_t());
                expect = reduce(ex), got = rep_mpz(x);
                break;
            }
            case WIDEN: {
                // conversion to a wider wide_integer of the same signedness preserves the value
                // (uintwide_t accepts widths of 2^n times an odd number <= 63: take a power of two)
                constexpr unsigned bits2 = std::bit_ceil(static_cast<unsigned>(2 * (D + 2)));
                using W2 = cnl::wide_integer<int(bits2) - (is_signed ? 1 : 0), Narrowest>;
                W2 w2{a};
                expect = za, got = rep_mpz(w2);
                break;
            }
            default: {
                expect = 0, got = 0;
                if (std::numeric_limits<T>::digits != D) got = 1;
                mpz_class mx = rep_mpz(std::numeric_limits<T>::max()), lw = rep_mpz(std::numeric_limits<T>::lowest());
                if (mx != dmax()) got = 2;
                if (lw != (is_signed ? mpz_class(-dmax() - 1) : mpz_class(0))) got = 3;
                if (got != 0) fail_detail = "digits " + std::to_string(std::numeric_limits<T>::digits) + " max " + zstr(mx) + " lowest " + zstr(lw);
                break;
            }
            }
        });
        if (!ok) {
            // cause region: decimal text of the most negative value of a single-word (built-in) storage goes through cnl::to_chars,
            // which negates the value in its own type (the C13/C14 finding)
            std::string c0;
            if (op == TEXT && !is_uintwide_v<Rep> && is_signed && za == -(mpz_class(1) << (W - 1))) c0 = "most-negative/", o.region = c0;
            o.fclass = std::string("op") + opname(op) + "/" + c0 + o.fclass;
            return;
        }
        if (fail_detail == "skip") return o.discard("not-applicable-for-this-value");
        if constexpr (!is_uintwide_v<Rep> && is_signed) {
            // single-word storage (__int128): results that leave the storage are built-in signed overflow, outside the property
        }
        std::string cause = "";
        if constexpr (is_uintwide_v<Rep>) {
            // cause region: the vendored Karatsuba multiplication (>= 129 limbs) assumes a power-of-two limb count
            constexpr std::size_t limbs = Rep::number_of_limbs;
            // (the recursion halves the limb count down to blocks of at most 48 limbs and loses a limb whenever a count on the way is odd:
            //  129, 196 -> 98 -> 49, 250 -> 125 fail; 132 -> 66 -> 33, 136 -> 68 -> 34, 256 are sound)
            bool odd_on_the_way = false;
            if (limbs >= 129)
                for (std::size_t nl = limbs; nl > 48; nl /= 2) odd_on_the_way = odd_on_the_way || (nl % 2 != 0);
            if ((op == MUL || op == A_MUL) && odd_on_the_way) cause = "karatsuba-non-power-of-two-limb-count/";
        }
        o.region = cause;
        if (got != expect || (!fail_detail.empty() && fail_detail != "skip"))
            return o.fail(std::string("op") + opname(op) + "/" + cause + "value-mismatch", "expected " + zstr(expect) + " got " + zstr(got) + " " + fail_detail);
        // non-trivial: >= 2 significant limbs in an operand, or a carry/borrow across a limb boundary
        int lb = 64;
        if constexpr (is_uintwide_v<Rep>) lb = std::numeric_limits<typename Rep::limb_type>::digits;
        bool multi = mpz_sizeinbase(za.get_mpz_t(), 2) > unsigned(lb) || mpz_sizeinbase(zb.get_mpz_t(), 2) > unsigned(lb);
        o.pass(multi, opname(op));
    }

    static void run(Words& w, Outcome& o, std::string* d)
    {
        int op = int(draw_small(w, 0, N_OPS - 1));
        mpz_class za = draw_mpz(w, D, is_signed, true), zb = draw_mpz(w, D, is_signed, true);
        unsigned n = unsigned(w.next());
        if (op == SHL || op == SHR) n = n % unsigned(W);
        if (op == DIV || op == MOD || op == A_DIV || op == A_MOD) {
            unsigned m = unsigned(w.next() % 6);
            if (m == 0) {  // short divisor
                zb = draw_mpz(w, 1 + int(w.next() % 64), is_signed);
            } else if (m == 1 && zb != 0) {  // a = q*b + r with r in {0, |b|-1}
                mpz_class q = draw_mpz(w, 1 + int(w.next() % unsigned(D)), false);
                mpz_class t = q * abs(zb) + ((w.next() & 1) ? mpz_class(abs(zb) - 1) : mpz_class(0));
                if (t <= dmax()) za = t;
            } else if (m == 2) {  // divisor whose top limb has its high bit clear / set, dividend all ones: exercises the Knuth D correction steps
                int bits = 65 + int(w.next() % unsigned(D > 70 ? D - 64 : 8));
                if (bits > D) bits = D;
                zb = (mpz_class(1) << (bits - 1)) + draw_mpz(w, bits > 2 ? bits - 2 : 1, false);
                if (w.next() & 1) zb |= (mpz_class(1) << (bits - 1)) - (mpz_class(1) << (bits > 33 ? bits - 33 : 0));
                za = dmax() - draw_mpz(w, 8, false);
            } else if (m == 3 && zb != 0) {  // the leading limbs of the running remainder equal the divisor's: q_hat = b-1 case
                int sh = int(w.next() % 64) + 1;
                mpz_class t = (abs(zb) << sh) - 1 - draw_mpz(w, 4, false);
                if (t > 0 && t <= dmax()) za = t;
            }
            if (zb == 0) zb = 1;
        }
        if (op >= ADD_INT && op <= MOD_INT) zb = to_mpz(draw_int<std::int64_t>(w));
        if (op == FROM_INT) zb = (w.next() & 1) ? to_mpz(draw_int<std::int64_t>(w)) : to_mpz(draw_int<u128>(w));
        if (op == FROM_FLOAT) zb = to_mpz(w.next());
        if (op == TO_INT && (w.next() % 2)) za = (w.next() & 1) ? to_mpz(draw_int<std::int64_t>(w)) : to_mpz(draw_int<i128>(w));
        if (op == TO_INT && (!is_signed && za < 0)) za = -za;
        if (op == TO_INT && abs(za) > dmax()) za = 5;
        check(op, za, zb, n, o, d);
    }
    static void reg(char const* name) { add_site({std::string("C10|") + name, run, 0, nullptr}); }
};
}  // namespace c10

// C02 — division, remainder and quotient() obey the integer-division contract
#pragma once
#include "../scaledval.h"

namespace c02 {
using namespace vf;

inline int zsgn(mpz_class const& z) { return sgn(z); }

template<class Rep>
void directed_pair(Words& w, mpz_class& za, mpz_class& zb)
{
    auto rr = range_of<Rep>();
    unsigned m = unsigned(w.next() % 6);
    int digits = int(mpz_sizeinbase(rr.second.get_mpz_t(), 2));
    switch (m) {
    case 0: zb = (w.next() & 1) ? 1 : -1; break;
    case 1: {
        zb = mpz_class(1) << (w.next() % unsigned(digits));
        if (w.next() & 1) zb = -zb;
        break;
    }
    case 2: {  // a = multiple of b +- 1
        if (zb != 0) {
            mpz_class k;
            mpz_tdiv_q(k.get_mpz_t(), za.get_mpz_t(), zb.get_mpz_t());
            za = k * zb + (long(w.next() % 3) - 1);
        }
        break;
    }
    default: break;
    }
    if (zb < rr.first || zb > rr.second) zb = 1;
}

////////////////////////////////////////////////////////////////////////////////
// operator/ and operator% on scaled_integer
template<class L, class R>
struct DivMod {
    using LI = scaled_info<L>;
    using RI = scaled_info<R>;
    using LRep = typename LI::rep;
    using RRep = typename RI::rep;
    static constexpr int EL = LI::exponent, ER = RI::exponent;
    static constexpr int radix = LI::is_scaled ? LI::radix : RI::radix;

    static void check(mpz_class const& za, mpz_class const& zb, Outcome& o, std::string* d)
    {
        if (d) *d = "a_rep=" + zstr(za) + " b_rep=" + zstr(zb);
        o.fp = fpn(za, zb);
        if (zb == 0) return o.discard("zero-divisor");
        if constexpr (is_native_int_v<LRep> && is_native_int_v<RRep>) {
            // "where rep division itself is defined": the usual arithmetic conversions keep both values, no min / -1
            using P = decltype(std::declval<LRep>() / std::declval<RRep>());
            if (!fits<P>(za) || !fits<P>(zb)) return o.discard("conversion-changes-value");
            if (is_signed_int_v<P> && za == zmin<P>() && zb == -1) return o.discard("min-by-minus-one");
        }
        L a = make_rep<L>(za);
        R b = make_rep<R>(zb);
        mpz_class qrep, rrep;
        int qexp = 0, rexp = 0;
        bool ok = guard(o, [&] {
            auto q = a / b;
            auto r = a % b;
            qexp = scaled_info<decltype(q)>::exponent;
            rexp = scaled_info<decltype(r)>::exponent;
            qrep = rep_mpz(q);
            rrep = rep_mpz(r);
        });
        if (!ok) return;
        if (qexp != EL - ER) return o.fail("quotient-exponent", "expected " + std::to_string(EL - ER) + " got " + std::to_string(qexp));
        if (rexp != EL) return o.fail("remainder-exponent", "expected " + std::to_string(EL) + " got " + std::to_string(rexp));
        mpz_class tq;
        mpz_tdiv_q(tq.get_mpz_t(), za.get_mpz_t(), zb.get_mpz_t());
        if (qrep != tq) return o.fail("quotient-not-truncated", "expected rep " + zstr(tq) + " got " + zstr(qrep));
        if (qrep * zb + rrep != za) return o.fail("identity", "(a/b)*b + a%b != a: q=" + zstr(qrep) + " r=" + zstr(rrep));
        if (rrep != 0 && zsgn(rrep) != zsgn(za)) return o.fail("remainder-sign", "r=" + zstr(rrep));
        if (abs(rrep) >= abs(zb)) return o.fail("remainder-magnitude", "r=" + zstr(rrep));
        o.pass(rrep != 0 || za < 0 || zb < 0 || EL != ER, rrep != 0 ? (za < 0 || zb < 0 ? "inexact-negative" : "inexact") : "exact");
    }
    static void run(Words& w, Outcome& o, std::string* d)
    {
        mpz_class za = draw_rep<LRep>(w), zb = draw_rep<RRep>(w);
        if (w.next() & 1) {
            directed_pair<RRep>(w, za, zb);
            if (!in_range<LRep>(za)) za = draw_rep<LRep>(w);
        }
        if (zb == 0) zb = 1;
        check(za, zb, o, d);
    }
    static constexpr std::uint64_t enum_size()
    {
        if constexpr (is_native_int_v<LRep> && is_native_int_v<RRep>) return (bits_v<LRep> + bits_v<RRep> <= 16) ? (1u << 16) : 0;
        return 0;
    }
    static void run_enum(std::uint64_t idx, Outcome& o, std::string* d)
    {
        if constexpr (is_native_int_v<LRep> && is_native_int_v<RRep>) {
            using UL = make_unsigned_t<LRep>;
            using UR = make_unsigned_t<RRep>;
            check(to_mpz(static_cast<LRep>(static_cast<UL>(idx))), to_mpz(static_cast<RRep>(static_cast<UR>(idx >> 8))), o, d);
        }
    }
    static void reg(char const* name) { add_site({std::string("C02|divmod|") + name, run, enum_size(), run_enum}); }
};

////////////////////////////////////////////////////////////////////////////////
// cnl::quotient(a, b)
template<class L, class R>
struct Quot {
    using LI = scaled_info<L>;
    using RI = scaled_info<R>;
    using LRep = typename LI::rep;
    using RRep = typename RI::rep;

    static void check(mpz_class const& za, mpz_class const& zb, Outcome& o, std::string* d)
    {
        if (d) *d = "a_rep=" + zstr(za) + " b_rep=" + zstr(zb);
        o.fp = fpn(za, zb);
        if (zb == 0) return o.discard("zero-divisor");
        L a = make_rep<L>(za);
        R b = make_rep<R>(zb);
        mpq_class va = mkq(za) * qpow(LI::radix, LI::exponent), vb = mkq(zb) * qpow(RI::radix, RI::exponent);
        mpq_class q = va / vb, r, u;
        bool ok = guard(o, [&] {
            auto res = cnl::quotient(a, b);
            using RS = scaled_info<std::remove_cvref_t<decltype(res)>>;
            r = value_of(res);
            u = qpow(RS::radix, RS::exponent);
        });
        // cause region: the result rep is derived from decltype(dividend rep / divisor rep); when that is unsigned
        // a negative operand cannot be represented
        std::string cause = "";
        if constexpr (is_native_int_v<LRep> && is_native_int_v<RRep>) {
            using P = decltype(std::declval<LRep>() / std::declval<RRep>());
            if (!is_signed_int_v<P> && (za < 0 || zb < 0)) cause = "negative-operand-unsigned-natural-result/";
        }
        if (!cause.empty()) o.region = "quotient/" + cause;
        if (!ok) {
            o.fclass = "quotient/" + cause + o.fclass;
            return;
        }
        if (!cause.empty() && (abs(r) > abs(q) || abs(q) - abs(r) >= u || (r != 0 && sgn(r) != sgn(q))))
            return o.fail("quotient/" + cause + "wrong", "exact " + qstr(q) + " got " + qstr(r));
        if (abs(r) > abs(q)) return o.fail("quotient/magnitude-exceeds-exact", "exact " + qstr(q) + " got " + qstr(r));
        if (abs(q) - abs(r) >= u) return o.fail("quotient/error-not-below-one-unit", "exact " + qstr(q) + " got " + qstr(r) + " unit " + qstr(u));
        if (r != 0 && sgn(r) != sgn(q)) return o.fail("quotient/sign", "exact " + qstr(q) + " got " + qstr(r));
        auto lr = range_of<LRep>();
        auto rr = range_of<RRep>();
        bool corner = za == lr.first || za == lr.second || zb == rr.first || zb == rr.second;
        o.pass(q != r || za < 0 || zb < 0 || corner, corner ? "corner" : q == r ? "exact"
                                                                                 : "truncated");
    }
    static void run(Words& w, Outcome& o, std::string* d)
    {
        mpz_class za = draw_rep<LRep>(w), zb = draw_rep<RRep>(w);
        unsigned m = unsigned(w.next() % 4);
        if (m == 1) {
            directed_pair<RRep>(w, za, zb);
            if (!in_range<LRep>(za)) za = draw_rep<LRep>(w);
        } else if (m == 2) {  // the four corner values
            auto lr = range_of<LRep>();
            auto rr = range_of<RRep>();
            za = (w.next() & 1) ? lr.first : lr.second;
            zb = (w.next() & 1) ? rr.first : rr.second;
            if (w.next() % 4 == 0) zb = -1;
            if (!in_range<RRep>(zb)) zb = 1;
        }
        if (zb == 0) zb = 1;
        check(za, zb, o, d);
    }
    static constexpr std::uint64_t enum_size()
    {
        if constexpr (is_native_int_v<LRep> && is_native_int_v<RRep>) return (bits_v<LRep> + bits_v<RRep> <= 16) ? (1u << 16) : 0;
        return 0;
    }
    static void run_enum(std::uint64_t idx, Outcome& o, std::string* d)
    {
        if constexpr (is_native_int_v<LRep> && is_native_int_v<RRep>) {
            using UL = make_unsigned_t<LRep>;
            using UR = make_unsigned_t<RRep>;
            check(to_mpz(static_cast<LRep>(static_cast<UL>(idx))), to_mpz(static_cast<RRep>(static_cast<UR>(idx >> 8))), o, d);
        }
    }
    static void reg(char const* name) { add_site({std::string("C02|quotient|") + name, run, enum_size(), run_enum}); }
};
}  // namespace c02

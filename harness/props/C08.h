// C08 — integer division under a rounding mode returns the correctly rounded quotient;
//        all other operators under a rounding tag behave like the built-in ones.
#pragma once
#include "../core.h"

#include <cnl/all.h>

namespace c08 {
using namespace vf;

enum Mode { TRUNC,
            FLOOR,
            HALF_AWAY,
            HALF_UP };
template<class Tag>
struct mode_of;
template<>
struct mode_of<cnl::native_rounding_tag> {
    static constexpr Mode value = TRUNC;
    static constexpr char const* name = "native";
};
template<>
struct mode_of<cnl::neg_inf_rounding_tag> {
    static constexpr Mode value = FLOOR;
    static constexpr char const* name = "neg_inf";
};
template<>
struct mode_of<cnl::nearest_rounding_tag> {
    static constexpr Mode value = HALF_AWAY;
    static constexpr char const* name = "nearest";
};
template<>
struct mode_of<cnl::tie_to_pos_inf_rounding_tag> {
    static constexpr Mode value = HALF_UP;
    static constexpr char const* name = "tie_to_pos_inf";
};

// exact a/b rounded by the mode; operands are at most 64 bits wide so i128 is exact and cannot overflow
inline i128 rounded_quotient(i128 a, i128 b, Mode m, bool* tie = nullptr)
{
    i128 q = a / b, r = a % b;  // truncating; no overflow: |a|,|b| < 2^64
    if (tie) *tie = false;
    if (r == 0) return q;
    bool neg = (a < 0) != (b < 0);
    i128 ar = r < 0 ? -r : r, ab = b < 0 ? -b : b;
    switch (m) {
    case TRUNC: return q;
    case FLOOR: return neg ? q - 1 : q;
    case HALF_AWAY:
        if (tie) *tie = (2 * ar == ab);
        return (2 * ar >= ab) ? (neg ? q - 1 : q + 1) : q;
    case HALF_UP:
        if (tie) *tie = (2 * ar == ab);
        if (2 * ar > ab) return neg ? q - 1 : q + 1;
        if (2 * ar == ab) return neg ? q : q + 1;
        return q;
    }
    return q;
}

template<class T>
inline bool fits128(i128 v)
{
    if constexpr (std::is_same_v<T, u128>)
        return v >= 0;
    else if constexpr (std::is_same_v<T, i128>)
        return true;
    else
        return v >= static_cast<i128>(int_min<T>()) && v <= static_cast<i128>(int_max<T>());
}

// Via: 0 = rounding_integer operator/, 1 = cnl::_impl::divide<Tag,Tag,L,R>, 2 = rounding_integer / built-in
template<class Tag, class L, class R, int Via>
struct Div {
    using Res = decltype(std::declval<L>() / std::declval<R>());
    static constexpr Mode mode = mode_of<Tag>::value;

    static void check(L a, R b, Outcome& o, std::string* d)
    {
        if (d) *d = "a=" + istr(a) + " b=" + istr(b);
        o.fp = fpn(a, b);
        if (b == 0) return o.discard("zero-divisor");
        // the built-in operator converts both operands to Res; the property speaks about the values
        if (static_cast<i128>(static_cast<Res>(a)) != static_cast<i128>(a)
            || static_cast<i128>(static_cast<Res>(b)) != static_cast<i128>(b))
            return o.discard("conversion-changes-value");
        bool tie = false;
        i128 const exact = rounded_quotient(static_cast<i128>(a), static_cast<i128>(b), mode, &tie);
        if (!fits128<Res>(exact)) return o.discard("quotient-not-representable");
        if ((Via == 3 || Via == 4) && !fits128<L>(exact)) return o.discard("quotient-does-not-fit-the-assigned-type");
        // failure classes the oracle can recognise without looking at CNL's answer
        i128 const half = static_cast<i128>(b) / 2;
        bool const opp = (a < 0) != (b < 0);
        char const* cause = "value-mismatch";
        if (mode == HALF_AWAY) {
            i128 biased = opp ? static_cast<i128>(a) - half : static_cast<i128>(a) + half;
            if (!fits128<Res>(biased)) cause = "bias-not-representable";
        } else if (mode == HALF_UP) {
            // the code negates both operands when b < 0 (each in its own promoted type), takes |a| in
            // the type it then has, and adds (b - (a<0))/2 in the result type
            using PL = decltype(-a);
            using PR = decltype(-b);
            i128 aa = a, bb = b;
            bool negated = bb < 0;
            if (negated) {
                if (!is_signed_int_v<PL> && aa != 0)
                    cause = "negation-of-unsigned";
                else if (!fits128<PL>(-aa) || !fits128<PR>(-bb))
                    cause = "negation-not-representable";
                aa = -aa;
                bb = -bb;
            }
            if (std::string(cause) == "value-mismatch") {
                i128 mag = aa < 0 ? -aa : aa;
                bool abs_ok = negated ? fits128<PL>(mag) : fits128<L>(mag);
                if (!abs_ok)
                    cause = "abs-of-lowest";
                else if (!fits128<Res>(mag + (bb - (aa < 0 ? 1 : 0)) / 2))
                    cause = "bias-not-representable";
            }
        }
        if (std::string(cause) != "value-mismatch") o.region = cause;
        Res got{};
        bool ok = guard(o, [&] {
            if constexpr (Via == 0) {
                auto q = cnl::rounding_integer<L, Tag>{a} / cnl::rounding_integer<R, Tag>{b};
                static_assert(std::is_same_v<decltype(q), cnl::rounding_integer<Res, Tag>>);
                got = cnl::_impl::to_rep(q);
            } else if constexpr (Via == 1) {
                auto q = cnl::_impl::divide<Tag, Tag, L, R>{}(a, b);
                static_assert(std::is_same_v<decltype(q), Res>);
                got = q;
            } else if constexpr (Via == 2) {
                auto q = cnl::rounding_integer<L, Tag>{a} / b;
                got = static_cast<Res>(cnl::_impl::to_rep(q));
            } else if constexpr (Via == 3) {  // x /= y: x = x / y converted back to x's type (cases whose quotient does not fit L were discarded)
                cnl::rounding_integer<L, Tag> x{a};
                x /= cnl::rounding_integer<R, Tag>{b};
                got = static_cast<Res>(cnl::_impl::to_rep(x));
            } else if constexpr (Via == 4) {  // x /= built-in
                cnl::rounding_integer<L, Tag> x{a};
                x /= b;
                got = static_cast<Res>(cnl::_impl::to_rep(x));
            } else {  // built-in / wrapper
                auto q = a / cnl::rounding_integer<R, Tag>{b};
                got = static_cast<Res>(cnl::_impl::to_rep(q));
            }
        });
        if (!ok) {
            o.fclass = std::string(cause) + "/" + o.fclass;
            o.msg += " expected " + istr(exact);
            return;
        }
        if (static_cast<i128>(got) != exact || (got < 0) != (exact < 0))
            return o.fail(cause, "expected " + istr(exact) + " got " + istr(got));
        bool const inexact = static_cast<i128>(a) % static_cast<i128>(b) != 0;
        i128 const ab = b < 0 ? -static_cast<i128>(b) : static_cast<i128>(b);
        bool const near_limit = static_cast<i128>(a) > static_cast<i128>(int_max<L>()) - ab
                             || static_cast<i128>(a) < static_cast<i128>(int_min<L>()) + ab;
        o.pass(inexact || near_limit, tie ? "tie" : near_limit ? "near-limit"
                                            : inexact          ? (opp ? "inexact-neg" : "inexact-pos")
                                                               : "exact");
    }

    static void run(Words& w, Outcome& o, std::string* d)
    {
        unsigned m = static_cast<unsigned>(w.next() % 8);
        L a{};
        R b{};
        if (m <= 2) {
            a = draw_int<L>(w);
            b = draw_int<R>(w);
        } else if (m <= 5) {  // tie / near tie: a = q*b + b/2 + d
            b = draw_int<R>(w);
            L q = draw_int<L>(w);
            long dd = draw_small(w, 0, 2) - 1;
            mpz_class zb = to_mpz(b), half;
            mpz_tdiv_q_ui(half.get_mpz_t(), zb.get_mpz_t(), 2);
            mpz_class v = to_mpz(q) * zb + half + dd;
            if (m == 5) v = -v;
            if (!fits<L>(v) && b != 0) {
                // keep the structure but make it fit: quotient close to limit/b
                mpz_class qq;
                mpz_tdiv_q(qq.get_mpz_t(), zmax<L>().get_mpz_t(), zb.get_mpz_t());
                qq -= draw_small(w, 0, 3);
                v = qq * zb + half + dd;
            }
            if (!fits<L>(v)) v = to_mpz(q);
            a = from_mpz<L>(v);
        } else {  // operands within b/2 of the limits
            b = draw_int<R>(w);
            i128 ab = b < 0 ? -static_cast<i128>(b) : static_cast<i128>(b);
            long dd = draw_small(w, 0, 4) - 2;
            i128 v = (m == 6) ? static_cast<i128>(int_max<L>()) - ab / 2 + dd : static_cast<i128>(int_min<L>()) + ab / 2 + dd;
            if (!fits128<L>(v)) v = (m == 6) ? static_cast<i128>(int_max<L>()) : static_cast<i128>(int_min<L>());
            a = static_cast<L>(v);
        }
        check(a, b, o, d);
    }

    static constexpr std::uint64_t enum_size()
    {
        return (bits_v<L> + bits_v<R> <= 32) ? (std::uint64_t{1} << (bits_v<L> + bits_v<R>)) : 0;
    }
    static void run_enum(std::uint64_t idx, Outcome& o, std::string* d)
    {
        using UL = make_unsigned_t<L>;
        using UR = make_unsigned_t<R>;
        L a = static_cast<L>(static_cast<UL>(idx));
        R b = static_cast<R>(static_cast<UR>(idx >> bits_v<L>));
        check(a, b, o, d);
    }
    static void reg()
    {
        char const* via = Via == 0 ? "op" : Via == 1 ? "divide_fn" : Via == 2 ? "op_builtin_rhs" : Via == 3 ? "op_assign" : Via == 4 ? "op_assign_builtin_rhs"
                                                                                                                                     : "op_builtin_lhs";
        add_site({std::string("C08|div|") + via + "|" + mode_of<Tag>::name + "|" + tname<L>::get() + "|" + tname<R>::get(), run,
                  enum_size(), run_enum});
    }
};

////////////////////////////////////////////////////////////////////////////////
// all other operators behave exactly like the built-in ones

template<class Tag, class L, class R>
struct Ops {
    // op index: 0 + 1 - 2 * 3 % 4 & 5 | 6 ^ 7 << 8 >> 9 unary- 10 unary+ 11 ~ 12..17 comparisons
    static constexpr int n_ops = 18;
    static char const* opname(int op)
    {
        static char const* n[] = {"+", "-", "*", "%", "&", "|", "^", "<<", ">>", "neg", "pos", "~", "==", "!=", "<", "<=", ">", ">="};
        return n[op];
    }
    template<int Op, class A, class B>
    static auto apply(A const& a, B const& b)
    {
        if constexpr (Op == 0) return a + b;
        if constexpr (Op == 1) return a - b;
        if constexpr (Op == 2) return a * b;
        if constexpr (Op == 3) return a % b;
        if constexpr (Op == 4) return a & b;
        if constexpr (Op == 5) return a | b;
        if constexpr (Op == 6) return a ^ b;
        if constexpr (Op == 7) return a << b;
        if constexpr (Op == 8) return a >> b;
        if constexpr (Op == 9) return -a;
        if constexpr (Op == 10) return +a;
        if constexpr (Op == 11) return ~a;
        if constexpr (Op == 12) return a == b;
        if constexpr (Op == 13) return a != b;
        if constexpr (Op == 14) return a < b;
        if constexpr (Op == 15) return a <= b;
        if constexpr (Op == 16) return a > b;
        if constexpr (Op == 17) return a >= b;
    }
    // is the built-in expression defined (no UB)? decided on exact values
    template<int Op>
    static bool defined(L a, R b)
    {
        using Res = decltype(apply<Op>(a, b));
        mpz_class za = to_mpz(a), zb = to_mpz(b);
        if constexpr (Op <= 2) {
            if constexpr (is_signed_int_v<Res>) {
                mpz_class r = Op == 0 ? mpz_class(za + zb) : Op == 1 ? mpz_class(za - zb)
                                                                      : mpz_class(za * zb);
                return fits<Res>(r) && fits<Res>(za) && fits<Res>(zb);
            }
            return true;
        }
        if constexpr (Op == 3) {
            if (b == 0) return false;
            if constexpr (is_signed_int_v<Res>) return !(za == zmin<Res>() && zb == -1);
            return true;
        }
        if constexpr (Op == 7 || Op == 8) {
            using PL = decltype(+a);
            if (zb < 0 || zb >= bits_v<PL>) return false;
            if constexpr (Op == 7 && is_signed_int_v<PL>) {
                if (za < 0) return false;  // keep to the portable subset: left shift of negatives excluded
                return fits<PL>(za << zb.get_ui());
            }
            return true;
        }
        if constexpr (Op == 9) {
            using PL = decltype(+a);
            if constexpr (is_signed_int_v<PL>) return za != zmin<PL>();
            return true;
        }
        return true;
    }
    template<int Op>
    static void check_op(L a, R b, Outcome& o)
    {
        if (!defined<Op>(a, b)) return o.discard("builtin-undefined");
        auto expect = apply<Op>(a, b);
        using Res = decltype(expect);
        Res got{};
        bool ok = guard(o, [&] {
            cnl::rounding_integer<L, Tag> ca{a};
            cnl::rounding_integer<R, Tag> cb{b};
            if constexpr (Op == 7 || Op == 8) {
                // shift count as a built-in and as a wrapped number
                auto r1 = apply<Op>(ca, b);
                auto r2 = apply<Op>(ca, cb);
                got = static_cast<Res>(cnl::_impl::to_rep(r1));
                if (static_cast<Res>(cnl::_impl::to_rep(r2)) != got) got = static_cast<Res>(~got);
            } else if constexpr (Op >= 12) {
                got = apply<Op>(ca, cb);
                if (apply<Op>(ca, b) != got || apply<Op>(a, cb) != got) got = !got;
            } else {
                auto r = apply<Op>(ca, cb);
                static_assert(std::is_same_v<std::remove_cvref_t<decltype(cnl::_impl::to_rep(r))>, Res>);
                got = cnl::_impl::to_rep(r);
            }
        });
        if (!ok) {
            o.fclass = std::string("op") + opname(Op) + "/" + o.fclass;
            return;
        }
        if (got != expect) return o.fail(std::string("op") + opname(Op) + "/value-mismatch", "expected " + istr(expect) + " got " + istr(got));
        using UL = make_unsigned_t<L>;
        bool hb = (static_cast<UL>(a) >> (bits_v<L> - 1)) != 0;
        o.pass(hb || a == int_max<L>() || b == int_max<R>(), opname(Op));
    }
    static void check(int op, L a, R b, Outcome& o, std::string* d)
    {
        if (d) *d = std::string("op=") + opname(op) + " a=" + istr(a) + " b=" + istr(b);
        o.fp = fpn(a, b, op);
        [&]<int... I>(std::integer_sequence<int, I...>) { ((op == I ? check_op<I>(a, b, o) : void()), ...); }
        (std::make_integer_sequence<int, n_ops>{});
    }
    static void run(Words& w, Outcome& o, std::string* d)
    {
        int op = static_cast<int>(draw_small(w, 0, n_ops - 1));
        L a = draw_int<L>(w);
        R b = draw_int<R>(w);
        if ((op == 7 || op == 8) && (w.next() % 4) != 0) b = static_cast<R>(draw_small(w, 0, bits_v<decltype(+a)> - 1));
        check(op, a, b, o, d);
    }
    static constexpr std::uint64_t enum_size()
    {
        return (bits_v<L> + bits_v<R> <= 16) ? (std::uint64_t{n_ops} << (bits_v<L> + bits_v<R>)) : 0;
    }
    static void run_enum(std::uint64_t idx, Outcome& o, std::string* d)
    {
        using UL = make_unsigned_t<L>;
        using UR = make_unsigned_t<R>;
        int op = static_cast<int>(idx >> (bits_v<L> + bits_v<R>));
        L a = static_cast<L>(static_cast<UL>(idx));
        R b = static_cast<R>(static_cast<UR>(idx >> bits_v<L>));
        check(op, a, b, o, d);
    }
    static void reg()
    {
        add_site({std::string("C08|ops|") + mode_of<Tag>::name + "|" + tname<L>::get() + "|" + tname<R>::get(), run, enum_size(),
                  run_enum});
    }
};
}  // namespace c08

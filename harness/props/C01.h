// C01 — scaled_integer + - * and unary minus are exact real arithmetic on rep x radix^exponent
#pragma once
#include "../scaledval.h"
#include "../sweep.h"

namespace c01 {
using namespace vf;

// L, R: operand types (scaled_integer<...> or a built-in integer, which counts as exponent 0)
template<class L, class R>
struct Arith {
    using LI = scaled_info<L>;
    using RI = scaled_info<R>;
    using LRep = typename LI::rep;
    using RRep = typename RI::rep;
    static constexpr int radix = LI::is_scaled ? LI::radix : RI::radix;
    static constexpr int EL = LI::exponent, ER = RI::exponent;
    static constexpr int Emin = EL < ER ? EL : ER;
    static char const* opname(int op)
    {
        static char const* n[] = {"+", "-", "*", "neg"};
        return n[op];
    }
    // the type an operand has after exponent alignment by `shift` digits: promoted built-in, or what CNL's scale yields
    template<class Rep, int Shift>
    using aligned_t = std::remove_cvref_t<decltype(cnl::_impl::scale<Shift, radix>(std::declval<Rep>()))>;

    template<int Op>
    static void check_op(mpz_class const& za, mpz_class const& zb, Outcome& o)
    {
        if constexpr (Op == 3 && !LI::is_scaled) return o.discard("unary-minus-of-a-built-in");
        L a = make_rep<L>(za);
        R b = make_rep<R>(zb);
        mpq_class va = mkq(za) * qpow(radix, EL), vb = mkq(zb) * qpow(radix, ER), exact;
        int expect_exp = 0;
        switch (Op) {
        case 0: exact = va + vb; expect_exp = Emin; break;
        case 1: exact = va - vb; expect_exp = Emin; break;
        case 2: exact = va * vb; expect_exp = EL + ER; break;
        default: exact = -va; expect_exp = EL; break;
        }
        // precondition: exponent-aligned operands fit the promoted representation (only + and - align)
        if constexpr (Op <= 1) {
            mpz_class al = za * zpow(radix, EL - Emin), ar = zb * zpow(radix, ER - Emin);
            if (!in_range<aligned_t<LRep, EL - Emin>>(al) || !in_range<aligned_t<RRep, ER - Emin>>(ar)) return o.discard("aligned-operand-does-not-fit");
            // ... and so does the alignment factor radix^gap itself: no non-zero operand could be aligned otherwise, and the
            // multiplication / shift by it is not defined in that type even for zero (int64 exponent 0 with radix-10 exponent -20)
            if (!in_range<aligned_t<LRep, EL - Emin>>(zpow(radix, EL - Emin)) || !in_range<aligned_t<RRep, ER - Emin>>(zpow(radix, ER - Emin)))
                return o.discard("alignment-factor-does-not-fit");
        }
        mpz_class got_rep;
        int got_exp = 0, got_radix = 0;
        bool res_fits = true;
        mpq_class unit = qpow(radix, expect_exp);
        bool ok = guard(o, [&] {
            auto eval = [&]() {
                if constexpr (Op == 0) return a + b;
                if constexpr (Op == 1) return a - b;
                if constexpr (Op == 2) return a * b;
                if constexpr (Op == 3) return -a;
            };
            using Res = std::remove_cvref_t<decltype(eval())>;
            using RInfo = scaled_info<Res>;
            got_exp = RInfo::exponent;
            got_radix = RInfo::radix;
            // precondition: the exact result fits the result representation
            mpq_class q = exact / unit;
            if (!q_is_int(q) || !in_range<typename RInfo::rep>(q.get_num())) {
                res_fits = false;
                return;
            }
            if constexpr (Op == 2 && is_native_int_v<LRep> && is_native_int_v<RRep>) {
                // built-in multiplication happens in the common promoted type: both operands must convert without change
                using P = typename RInfo::rep;
                if (!fits<P>(za) || !fits<P>(zb)) {
                    res_fits = false;
                    return;
                }
            }
            got_rep = rep_mpz(eval());
        });
        if (!ok) {
            o.fclass = std::string("op") + opname(Op) + "/" + o.fclass;
            return;
        }
        if (got_exp != expect_exp || got_radix != radix)
            return o.fail(std::string("op") + opname(Op) + "/result-exponent", "expected exponent " + std::to_string(expect_exp) + " got " + std::to_string(got_exp));
        if (!res_fits) return o.discard("result-does-not-fit");
        mpq_class got = mkq(got_rep) * unit;
        if (got != exact) return o.fail(std::string("op") + opname(Op) + "/value-mismatch", "expected " + qstr(exact) + " got " + qstr(got) + " (rep " + zstr(got_rep) + ")");
        o.pass(za != 0 && (Op == 3 || zb != 0) && (EL != ER || Op == 2), opname(Op));
    }
    static void check(int op, mpz_class const& za, mpz_class const& zb, Outcome& o, std::string* d)
    {
        if (d) *d = std::string(opname(op)) + " a_rep=" + zstr(za) + " b_rep=" + zstr(zb);
        o.fp = fpn(za, zb, op);
        [&]<int... I>(std::integer_sequence<int, I...>) { ((op == I ? check_op<I>(za, zb, o) : void()), ...); }
        (std::make_integer_sequence<int, 4>{});
    }
    static void run(Words& w, Outcome& o, std::string* d)
    {
        int op = int(draw_small(w, 0, 3));
        unsigned m = unsigned(w.next() % 4);
        mpz_class za = draw_rep<LRep>(w), zb = draw_rep<RRep>(w);
        if (m >= 1) {
            // reduce magnitudes so that the aligned operands / results usually fit: shift right by a drawn amount
            auto lr = range_of<LRep>();
            auto rr = range_of<RRep>();
            int dl = int(mpz_sizeinbase(lr.second.get_mpz_t(), 2)), dr = int(mpz_sizeinbase(rr.second.get_mpz_t(), 2));
            int sl = 0, sr = 0;
            if (op <= 1) {
                sl = (EL - Emin) > 0 ? int(double(EL - Emin) * (radix == 10 ? 3.33 : 1.0)) + int(w.next() % 3) : int(w.next() % 2);
                sr = (ER - Emin) > 0 ? int(double(ER - Emin) * (radix == 10 ? 3.33 : 1.0)) + int(w.next() % 3) : int(w.next() % 2);
            } else if (op == 2) {
                sl = dl / 2 + int(w.next() % 3) - 1;
                sr = dr / 2 + int(w.next() % 3) - 1;
            }
            if (m == 3 && op <= 1) {
                sl += 1;
                sr += 1;
            }
            auto shr = [](mpz_class v, int s) {
                if (s <= 0) return v;
                mpz_class r;
                mpz_tdiv_q_2exp(r.get_mpz_t(), v.get_mpz_t(), static_cast<unsigned long>(s));
                return r;
            };
            za = shr(za, sl);
            zb = shr(zb, sr);
        }
        check(op, za, zb, o, d);
    }
    static constexpr std::uint64_t enum_size()
    {
        if constexpr (is_native_int_v<LRep> && is_native_int_v<RRep>)
            return (bits_v<LRep> + bits_v<RRep> <= 16) ? (std::uint64_t{4} << 16) : 0;
        else
            return 0;
    }
    static void run_enum(std::uint64_t idx, Outcome& o, std::string* d)
    {
        if constexpr (is_native_int_v<LRep> && is_native_int_v<RRep>) {
            using UL = make_unsigned_t<LRep>;
            using UR = make_unsigned_t<RRep>;
            check(int(idx >> 16), to_mpz(static_cast<LRep>(static_cast<UL>(idx))), to_mpz(static_cast<RRep>(static_cast<UR>(idx >> 8))), o, d);
        }
    }
    static void reg(char const* name) { add_site({std::string("C01|") + name, run, enum_size(), run_enum}); }
};
}  // namespace c01

// C11 — static_integer and static_number are never silently wrong.
// Generated programs: each chain is an expression DAG over static_integer / static_number leaves (same rounding tag, overflow
// tag and narrowest type within a chain). The chain body evaluates the nodes with CNL and records each node; the oracle replays the
// node list with exact rationals.
#pragma once
#include "../scaledval.h"

namespace c11 {
using namespace vf;

enum Round { R_NATIVE,
             R_NEG_INF,
             R_NEAREST,
             R_TIE_POS };
enum Ovf { O_SATURATED,
           O_THROWING,
           O_TRAPPING };
enum Kind { LEAF,
            ADD,
            SUB,
            MUL,
            DIV,
            NEG,
            CONVERT,
            MOD,  // a % b: remainder of the reps (sign of the dividend), exponent of a
            CMP,  // the six comparisons of two nodes; not an operand of later nodes
            ASSIGN,  // T y{}; y = x;  (same contract as the converting construction T{x})
            SHL,  // x << k, k a run-time int held in NodeSpec::b: same type as x, value x * 2^k or the overflow handling
            INC,  // y = x; ++y (NodeSpec::b == 0) or y++ (1): x + 1 in x's own type, or the overflow handling
            DEC };

struct NodeSpec {
    int kind;
    int a, b;  // operand node indices
    int digits, exponent;  // LEAF / CONVERT: the declared type
};
struct Obs {
    mpz_class rep;
    int digits = 0, exponent = 0;
};
struct Trace {
    std::vector<Obs> nodes;
    template<class X>
    void rec(X const& x)
    {
        Obs o;
        o.rep = rep_mpz(x);
        o.digits = cnl::digits_v<X>;
        o.exponent = scaled_info<X>::exponent;
        nodes.push_back(o);
    }
    template<class X, class Y>
    void rec_cmp(X const& x, Y const& y)
    {
        Obs o;
        o.rep = (x == y ? 1 : 0) | (x != y ? 2 : 0) | (x < y ? 4 : 0) | (x <= y ? 8 : 0) | (x > y ? 16 : 0) | (x >= y ? 32 : 0);
        // and with the operands swapped (the specialisations for "coarser on the left / on the right" are separate code)
        o.rep += ((y == x ? 1 : 0) | (y != x ? 2 : 0) | (y > x ? 4 : 0) | (y >= x ? 8 : 0) | (y < x ? 16 : 0) | (y <= x ? 32 : 0)) << 6;
        o.digits = -1;
        nodes.push_back(o);
    }
};
using Inputs = std::vector<mpz_class>;
template<class L>
L leaf(Inputs const& in, int i)
{
    return make_rep<L>(in[static_cast<std::size_t>(i)]);
}

inline mpz_class round_by(mpq_class const& t, int mode)
{
    switch (mode) {
    case R_NATIVE: return q_trunc(t);
    case R_NEG_INF: return q_floor(t);
    case R_NEAREST: return q_round_half_away(t);
    default: return q_round_half_up(t);
    }
}

struct Chain {
    std::string name;
    int round, ovf;
    std::vector<NodeSpec> nodes;
    std::function<void(Inputs const&, Trace&)> body;
};

// what the oracle expects of one node, computed without looking at CNL
struct Expect {
    mpq_class value;  // exact (rounded for / and narrowing construction); the saturation bound when overflow
    int exponent = 0, digits = 0;  // analytic type of the node (elastic policy), used for resolution and cause regions
    bool overflow = false;
    int side = 0;
    bool zero_divisor = false;
    std::string cause;  // inherited cause region, recognisable from the operands alone ("" = none)
};
inline int storage_digits(int d, int narrowest_digits)
{
    int s = narrowest_digits;
    while (s < d) s = s * 2 + 1;  // 7 -> 15 -> 31 -> 63 -> 127 -> ...
    return s;
}
// replays the chain with exact rationals up to the first overflow / zero divisor
inline std::vector<Expect> analyse(Chain const& c, Inputs const& in, int narrowest_digits)
{
    std::vector<Expect> ex;
    int leafno = 0;
    for (NodeSpec const& n : c.nodes) {
        Expect e;
        auto const& A = n.a >= 0 ? ex[static_cast<std::size_t>(n.a)] : e;
        auto const& B = (n.b >= 0 && n.kind != SHL && n.kind != INC && n.kind != DEC) ? ex[static_cast<std::size_t>(n.b)] : e;
        switch (n.kind) {
        case LEAF:
            e.exponent = n.exponent, e.digits = n.digits;
            e.value = mkq(in[static_cast<std::size_t>(leafno++)]) * qpow(2, n.exponent);
            break;
        case ADD:
        case SUB: {
            e.exponent = std::min(A.exponent, B.exponent);
            e.digits = std::max(A.digits + A.exponent, B.digits + B.exponent) - e.exponent + 1;
            e.value = n.kind == ADD ? mpq_class(A.value + B.value) : mpq_class(A.value - B.value);
            // inherited (multiply-predicate-division-bias, see MUL and CMP): the coarser operand is aligned by a checked multiplication by 2^shift
            if ((c.round == R_NEAREST || c.round == R_TIE_POS) && A.exponent != B.exponent) {
                int d = (A.exponent > B.exponent ? A.digits : B.digits) + std::abs(A.exponent - B.exponent);
                if (storage_digits(d, narrowest_digits) == d && d >= 31) e.cause = "multiply-predicate-division-bias/";
            }
            break;
        }
        case MUL:
            e.exponent = A.exponent + B.exponent;
            e.digits = std::max(1, (A.digits == 1 ? 0 : A.digits) + (B.digits == 1 ? 0 : B.digits));
            e.value = A.value * B.value;
            // inherited from C08, through C06: a 1-digit operand contributes no digits to the product, so the overflow layer's
            // digit pre-filter does not rule overflow out and the predicate evaluates max() / rhs with the chain's rounding division;
            // when the result digits fill their storage the bias of that division overflows
            if ((c.round == R_NEAREST || c.round == R_TIE_POS) && (A.digits == 1 || B.digits == 1) && storage_digits(e.digits, narrowest_digits) == e.digits
                && e.digits >= 31)
                e.cause = "multiply-predicate-division-bias/";
            break;
        case NEG: e.exponent = A.exponent, e.digits = A.digits, e.value = -A.value; break;
        case MOD: {
            e.exponent = A.exponent, e.digits = std::min(A.digits, B.digits);
            if (B.value == 0) {
                e.zero_divisor = true;
                break;
            }
            mpz_class ra = mpq_class(A.value / qpow(2, A.exponent)).get_num(), rb = mpq_class(B.value / qpow(2, B.exponent)).get_num(), r;
            mpz_tdiv_r(r.get_mpz_t(), ra.get_mpz_t(), rb.get_mpz_t());
            e.value = mkq(r) * qpow(2, e.exponent);
            break;
        }
        case SHL:
        case INC:
        case DEC: {
            e.exponent = A.exponent, e.digits = A.digits;
            mpq_class t = n.kind == SHL ? mpq_class(A.value * qpow(2, n.b)) : n.kind == INC ? mpq_class(A.value + 1) : mpq_class(A.value - 1);
            mpq_class units = t / qpow(2, e.exponent);
            mpz_class r = units.get_num();  // (integral: the generator only emits ++/-- for exponents <= 0)
            mpz_class lim = (mpz_class(1) << e.digits) - 1;
            if (r > lim) e.overflow = true, e.side = 1;
            if (r < -lim) e.overflow = true, e.side = -1;
            e.value = mkq(e.overflow ? (e.side > 0 ? lim : mpz_class(-lim)) : r) * qpow(2, e.exponent);
            // cause region: the shift-left overflow test is the two's-complement one ((x >> (digits - k)) != -1), which lets
            // -(2^digits) through although the symmetric range of the type ends at -(2^digits - 1)
            if (n.kind == SHL && r == -lim - 1) e.cause = "shl-result-minus-two-to-digits/";
            break;
        }
        case CMP: {
            int ord = cmp(A.value, B.value);
            long m = (ord == 0 ? 1 : 0) | (ord != 0 ? 2 : 0) | (ord < 0 ? 4 : 0) | (ord <= 0 ? 8 : 0) | (ord > 0 ? 16 : 0) | (ord >= 0 ? 32 : 0);
            e.value = mkq(mpz_class(m + (m << 6)));
            e.digits = -1;
            // inherited (same root cause as multiply-predicate-division-bias): the coarser operand is brought to the finer exponent by a
            // checked multiplication by 2^shift; when its digits + shift fill their storage, the overflow predicate's rounding division overflows
            if ((c.round == R_NEAREST || c.round == R_TIE_POS) && A.exponent != B.exponent) {
                int d = (A.exponent > B.exponent ? A.digits : B.digits) + std::abs(A.exponent - B.exponent);
                if (storage_digits(d, narrowest_digits) == d && d >= 31) e.cause = "multiply-predicate-division-bias/";
            }
            break;
        }
        case DIV: {
            e.exponent = A.exponent - B.exponent, e.digits = A.digits;
            if (B.value == 0) {
                e.zero_divisor = true;
                break;
            }
            mpq_class ra = A.value / qpow(2, A.exponent), rb = B.value / qpow(2, B.exponent);
            e.value = mkq(round_by(ra / rb, c.round)) * qpow(2, e.exponent);
            // inherited from C08: the nearest / tie_to_pos_inf divide operators add |rhs|/2 to |lhs| in the operand rep; UB / wrong
            // when that leaves the storage of the wider operand
            if (c.round == R_NEAREST || c.round == R_TIE_POS) {
                int S = storage_digits(std::max(A.digits, B.digits), narrowest_digits);
                if (abs(ra) + (abs(rb) + 1) / 2 > mkq((mpz_class(1) << S) - 1)) e.cause = "division-bias-exceeds-storage/";
            }
            break;
        }
        default: {
            e.exponent = n.exponent, e.digits = n.digits;
            mpq_class t = A.value / qpow(2, n.exponent);
            mpz_class r = q_is_int(t) ? t.get_num() : round_by(t, c.round);
            mpz_class lim = (mpz_class(1) << n.digits) - 1;
            if (r > lim) e.overflow = true, e.side = 1;
            if (r < -lim) e.overflow = true, e.side = -1;
            e.value = mkq(e.overflow ? (e.side > 0 ? lim : mpz_class(-lim)) : r) * qpow(2, n.exponent);
            int sh = n.exponent - A.exponent;
            // cause region: a destination spelled static_integer<...> (NodeSpec::b == -2) built from a static_number with a positive
            // exponent is not overflow-checked at all: the up-scaled value is stored whatever the declared digits
            if (n.b == -2 && sh < 0 && e.overflow) e.cause = "static-integer-from-coarser-static-number/";
            // cause region: every digit of the source is shifted out (shift count >= digits of the shifted type)
            if (sh >= A.digits) e.cause = "shift-not-less-than-source-digits/";
            if (!q_is_int(t) && sh > 0) {
                mpq_class src_units = A.value / qpow(2, A.exponent);
                if (c.round == R_NEAREST || c.round == R_TIE_POS) {
                    // inherited from C09: half a destination unit is added to the source before shifting; the sum saturates / signals
                    // when it leaves the source's declared digits, and is UB when it leaves its storage
                    mpq_class half = qpow(2, sh) / 2;
                    mpq_class biased = (c.round == R_NEAREST && src_units < 0) ? mpq_class(src_units - half) : mpq_class(src_units + half);
                    if (abs(biased) > mkq((mpz_class(1) << A.digits) - 1)) e.cause += "bias-exceeds-source-digits/";
                }
                if (c.round == R_NEG_INF || c.round == R_TIE_POS) {
                    // inherited from C05: >> floors the two's-complement rep; -(2^k) is one below the symmetric lowest of the shifted type
                    mpz_class f = q_floor(c.round == R_TIE_POS ? mpq_class((src_units + qpow(2, sh) / 2) / qpow(2, sh)) : mpq_class(src_units / qpow(2, sh)));
                    if (f < 0 && mpz_popcount(mpz_class(-f).get_mpz_t()) == 1 && mpz_sizeinbase(mpz_class(-f).get_mpz_t(), 2) >= static_cast<std::size_t>(std::max(1, A.digits - sh)))
                        e.cause += "floor-below-symmetric-lowest/";
                }
            }
            break;
        }
        }
        ex.push_back(e);
        // throwing / trapping chains end at the first overflow; a saturated chain goes on with the bound, which is its defined result
        if (e.zero_divisor || (e.overflow && c.ovf != O_SATURATED)) break;
    }
    return ex;
}

inline char const* kind_name(int k)
{
    static char const* n[] = {"leaf", "+", "-", "*", "/", "neg", "convert", "%", "cmp", "assign", "<<", "++", "--"};
    return n[k];
}

struct ChainSite;
inline void check_chain(Chain const& c, int narrowest_digits, Inputs const& in, Outcome& o, std::string* d)
{
    if (d) {
        *d = "leaves:";
        for (auto const& z : in) *d += " " + zstr(z);
    }
    {
        std::uint64_t h = 99;
        for (auto const& z : in) h = mix(h, fp1(z));
        o.fp = h;
    }
    std::vector<Expect> ex = analyse(c, in, narrowest_digits);
    if (ex.back().zero_divisor) return o.discard("zero-divisor");
    Trace tr;
    int signal = 0;  // +1 / -1: overflow signalled by exception or abort
    char const* how = "";
    Outcome tmp;
    bool ok = guard(tmp, [&] {
        try {
            c.body(in, tr);
        } catch (std::overflow_error const& e) {
            signal = std::string(e.what()) == "positive overflow" ? 1 : std::string(e.what()) == "negative overflow" ? -1
                                                                                                                      : 2;
            how = "throw";
        }
    });
    std::size_t const completed = tr.nodes.size();
    for (std::size_t i = 0; i < ex.size() && o.region.empty(); ++i)
        if (!ex[i].cause.empty()) o.region = "node(" + std::string(i < c.nodes.size() ? kind_name(c.nodes[i].kind) : "?") + ")/" + ex[i].cause;
    auto where = [&](std::size_t i) { return "node(" + std::string(i < c.nodes.size() ? kind_name(c.nodes[i].kind) : "?") + ")/" + (i < ex.size() ? ex[i].cause : std::string()); };
    bool trapped = false;
    if (!ok) {
        if (tmp.fclass == "abort:positive overflow" || tmp.fclass == "abort:negative overflow") {
            signal = tmp.fclass == "abort:positive overflow" ? 1 : -1;
            how = "abort";
        } else {
            trapped = true;  // judged after the nodes recorded before the trap: an earlier wrong value comes first
        }
    }
    auto report_trap = [&] {
        {
            if (completed >= ex.size() && ex.back().overflow && c.ovf != O_SATURATED)
                // the evaluation went on past the node where the oracle expects the overflow signal, and only then ran into something
                return o.fail(where(ex.size() - 1) + "overflow-not-signalled", "evaluation continued past node " + std::to_string(ex.size() - 1) + " and ended in " + tmp.fclass);
            o.take_failure(tmp);
            o.fclass = where(completed) + o.fclass;
            o.msg += " at node " + std::to_string(completed);
            return;
        }
    };
    int ops_done = 0;
    for (std::size_t i = 0; i < ex.size(); ++i) {
        Expect const& e = ex[i];
        if (trapped && i >= completed) return report_trap();
        if (i >= completed) {
            // evaluation stopped before this node
            if (i == completed && signal != 0) {
                if (c.ovf == O_SATURATED) return o.fail(where(i) + "signalled-under-saturated", how);
                if (std::string(how) != (c.ovf == O_THROWING ? "throw" : "abort")) return o.fail(where(i) + "wrong-signal-kind", how);
                if (e.overflow && signal != e.side) return o.fail(where(i) + "wrong-polarity", how);
                // a signal for a representable result is loud, hence not "silently wrong" (C06 / C09 judge exactness of detection)
                return o.pass(e.overflow, e.overflow ? "overflow-signalled" : "overflow-signalled-although-representable");
            }
            return o.fail(where(i) + "evaluation-stopped", "after " + std::to_string(completed) + " nodes");
        }
        Obs const& ob = tr.nodes[i];
        if (c.nodes[i].kind == CMP) {
            if (mkq(ob.rep) != e.value) return o.fail(where(i) + "comparison-mismatch", "six comparisons (and swapped): expected mask " + qstr(e.value) + " got " + zstr(ob.rep));
            ++ops_done;
            continue;
        }
        mpq_class got = mkq(ob.rep) * qpow(2, ob.exponent);
        if (c.nodes[i].kind == LEAF || c.nodes[i].kind == CONVERT || c.nodes[i].kind == ASSIGN || c.nodes[i].kind == SHL || c.nodes[i].kind == INC || c.nodes[i].kind == DEC) {
            if (ob.digits != e.digits || ob.exponent != e.exponent) return o.fail(where(i) + "type", "digits " + std::to_string(ob.digits) + " exponent " + std::to_string(ob.exponent));
        } else if (ob.exponent != e.exponent) {
            return o.fail(where(i) + "result-exponent", "expected " + std::to_string(e.exponent) + " got " + std::to_string(ob.exponent));
        }
        if (e.overflow && c.ovf != O_SATURATED) return o.fail(where(i) + "overflow-not-signalled", "rounded result does not fit " + std::to_string(e.digits) + " digits, got " + qstr(got));
        if (got != e.value) return o.fail(where(i) + (e.overflow ? "saturated-value-wrong" : "value-mismatch"), "expected " + qstr(e.value) + " got " + qstr(got));
        if (abs(ob.rep) > (mpz_class(1) << ob.digits) - 1) return o.fail(where(i) + "value-exceeds-declared-digits", "rep " + zstr(ob.rep) + " digits " + std::to_string(ob.digits));
        if (c.nodes[i].kind != LEAF) ++ops_done;
    }
    if (trapped) return report_trap();
    if (signal != 0) return o.fail("end/overflow-signalled-after-all-nodes", how);
    if (completed != c.nodes.size()) return o.fail("end/trace-length", std::to_string(completed));
    bool saturated = false;
    for (auto const& e : ex) saturated = saturated || e.overflow;
    o.pass(ops_done >= 2, saturated ? "chain-completed-with-saturation" : "chain-completed");
}

struct ChainSite {
    Chain chain;
    int narrowest_digits = 31;
    std::vector<std::pair<int, bool>> leaves;  // digits, (always signed)
};
inline std::vector<std::unique_ptr<ChainSite>>& chain_sites()
{
    static std::vector<std::unique_ptr<ChainSite>> v;
    return v;
}
inline void add_chain(char const* name, int round, int ovf, int narrowest_digits, std::vector<NodeSpec> nodes, std::function<void(Inputs const&, Trace&)> body)
{
    auto cs = std::make_unique<ChainSite>();
    cs->chain = Chain{name, round, ovf, std::move(nodes), std::move(body)};
    cs->narrowest_digits = narrowest_digits;
    for (auto const& n : cs->chain.nodes)
        if (n.kind == LEAF) cs->leaves.push_back({n.digits, true});
    ChainSite* p = cs.get();
    chain_sites().push_back(std::move(cs));
    add_site({name,
              [p](Words& w, Outcome& o, std::string* d) {
                  Inputs in;
                  for (auto const& lf : p->leaves) {
                      mpz_class z = draw_mpz(w, lf.first, true);
                      if (w.next() % 6 == 0) z = (w.next() & 1) ? mpz_class((mpz_class(1) << lf.first) - 1) : mpz_class(-((mpz_class(1) << lf.first) - 1));
                      in.push_back(z);
                  }
                  check_chain(p->chain, p->narrowest_digits, in, o, d);
              },
              0, nullptr});
}
}  // namespace c11

// C17 — constructing a fraction from floating point terminates with a faithful result
#pragma once
#include "../floatval.h"
#include "../scaledval.h"

#include <cstdlib>

namespace c17 {
using namespace vf;

// Route 0: cnl::fraction<T>(x)   Route 1: cnl::_impl::make_fraction<T>(x)
template<class T, class F, int Route>
struct FromFloat {
    static constexpr int D = bits_v<T> - 1;  // digits of the (signed) component type
    static void check(F x, Outcome& o, std::string* d, bool from_corpus = false)
    {
        if (d) *d = "x=" + fstr(x);
        o.fp = fpn(static_cast<long double>(x));
        if (!std::isfinite(x)) return o.discard("non-finite");
        mpq_class q = q_of_float(x);
        mpz_class tmax = zmax<T>();
        if (abs(q) > mkq(tmax)) return o.discard("magnitude-outside-numerator-range");
        mpz_class n, dd;
        bool ok = guard(o, [&] {
            if constexpr (Route == 0) {
                cnl::fraction<T> f(x);
                n = to_mpz(f.numerator), dd = to_mpz(f.denominator);
            } else {
                auto f = cnl::_impl::make_fraction<T>(x);
                n = to_mpz(f.numerator), dd = to_mpz(f.denominator);
            }
        });
        bool const is_int = q_is_int(q);
        bool const exactly_representable = fits<T>(q.get_num()) && fits<T>(q.get_den());
        // magnitude bucket relative to the component digits D
        long double ax = std::fabs(static_cast<long double>(x));
        char const* bucket = ax == 0                         ? "zero"
                           : ax < std::ldexp(1.0L, -D)       ? "below-2^-D"
                           : ax < std::ldexp(1.0L, -D / 2)   ? "below-2^-D/2"
                           : ax < 1                          ? "below-1"
                           : ax < std::ldexp(1.0L, D / 2)    ? "below-2^D/2"
                           : ax < std::ldexp(1.0L, D - 1)    ? "below-2^(D-1)"
                                                             : "top-octave";
        // Where the pinned implementation can be held to the property ("strict"), and where it is known to lose track
        // ("fragile": assertion failures, UB, wrong results, non-termination; one listed known finding):
        //  * integers below the numerator limit are matched in the first step;
        //  * ratios of two representable integers are matched exactly when the floating type carries at least 16 more
        //    digits than the component type (the search compares in floating point), the reduced denominator has at most
        //    D-10 bits and x is below the top octave;
        //  * everything else has to be approximated inside the component range, which the search does not do reliably.
        constexpr bool precise_pair = std::numeric_limits<F>::digits >= D + 16;
        // (a coverage-guided run found exact ratios with denominators close to the component limit that are not matched:
        //  -67108873 / 2^30 for int32 / double; the strict region therefore stops at denominators of D-10 bits)
        bool const small_denominator = D > 10 && q.get_den() <= (mpz_class(1) << (D - 10));
        bool const strict = (is_int && abs(q) < mkq(tmax)) || (exactly_representable && precise_pair && small_denominator && ax < std::ldexp(1.0L, D - 1));
        char const* kind = is_int ? "integer" : exactly_representable ? "exact-ratio"
                                                                      : "approximated";
        std::string cause = from_corpus ? std::string("corpus-regression/") + kind + "/"
                          : strict      ? std::string("strict/") + kind + "/"
                                        : std::string("fragile/") + kind + "/" + bucket + "/";
        if (!strict && !from_corpus) o.region = cause;
        if (!ok) {
            o.fclass = cause + o.fclass;
            return;
        }
        if (dd <= 0) return o.fail(cause + "denominator-not-positive", "got " + zstr(n) + "/" + zstr(dd));
        if (n != 0 && sgn(n) != sgn(q)) return o.fail(cause + "sign", "got " + zstr(n) + "/" + zstr(dd));
        mpq_class f = mkq(n, dd);
        if (exactly_representable) {
            if (f != q) return o.fail(cause + "not-equal-to-input", "expected " + qstr(q) + " got " + zstr(n) + "/" + zstr(dd));
        } else {
            mpz_class fl = q_floor(q);
            if (f < mkq(fl) || f > mkq(fl) + 1) return o.fail(cause + "outside-adjacent-integers", "x=" + qstr(q) + " got " + zstr(n) + "/" + zstr(dd));
            mpq_class bound = (abs(q) > 1 ? mpq_class(abs(q)) : mpq_class(1)) * qpow(2, 4 - D);
            if (abs(f - q) >= bound) return o.fail(cause + "error-bound", "x=" + qstr(q) + " got " + zstr(n) + "/" + zstr(dd) + " |err|=" + qstr(abs(f - q)));
        }
        static std::map<std::string, std::string> labels;
        std::string lab = cause;
        auto it = labels.find(lab);
        if (it == labels.end()) it = labels.emplace(lab, lab).first;
        if (FILE* df = dump_file()) std::fprintf(df, "%s\t%La\n", lab.c_str(), static_cast<long double>(x));
        o.pass(!is_int, it->second.c_str());
    }
    static FILE* dump_file()
    {
        static FILE* f = [] {
            char const* p = std::getenv("VERIF_C17_DUMP");
            return p ? std::fopen((std::string(p) + "." + tname<T>::get() + "." + tname<F>::get() + "." + std::to_string(Route)).c_str(), "a") : nullptr;
        }();
        return f;
    }
    // regression corpus: inputs in the regions excluded by the known finding that DO satisfy the property on the pinned tree
    static std::vector<long double>& corpus()
    {
        static std::vector<long double> c = [] {
            std::vector<long double> v;
            char const* root = std::getenv("VERIF_ROOT");
            std::string path = std::string(root ? root : "/verif") + "/corpus/C17/" + tname<T>::get() + "." + tname<F>::get() + ".txt";
            if (FILE* f = std::fopen(path.c_str(), "r")) {
                long double x;
                while (std::fscanf(f, "%La", &x) == 1) v.push_back(x);
                std::fclose(f);
            }
            return v;
        }();
        return c;
    }
    static void run(Words& w, Outcome& o, std::string* d)
    {
        unsigned m = unsigned(w.next() % 8);
        F x;
        if (m == 0) {
            x = draw_float<F>(w, -D - 4, D);
        } else if (m <= 2) {  // p/q with small components (exactly representable ratios, decimal fractions)
            long p = draw_small(w, -100000, 100000), qq = draw_small(w, 1, 1000);
            if (m == 2) qq = (long[]){10, 100, 1000, 3, 7, 1024}[w.next() % 6];
            x = static_cast<F>(static_cast<long double>(p) / static_cast<long double>(qq));
        } else if (m == 3) {  // integers and dyadic fractions
            x = static_cast<F>(std::ldexp(static_cast<long double>(draw_small(w, -100000, 100000)), int(w.next() % 24) - 16));
        } else if (m == 4) {  // values next to the numerator limit
            long double lim = std::ldexp(1.0L, D) - 1;
            x = static_cast<F>(lim - static_cast<long double>(w.next() % 1000) * 0.37L);
            if (w.next() & 1) x = -x;
            while (std::fabs(static_cast<long double>(x)) > lim) x = std::nextafter(x, F(0));
        } else {  // full-mantissa random at a random exponent
            x = draw_float<F>(w, -D / 2 - 2, D - 1);
        }
        check(x, o, d);
    }
    // float exponent x coarse mantissa lattice (2^9 mantissa points per exponent), both signs; then the regression corpus
    static std::uint64_t lattice_size() { return std::uint64_t(2 * (2 * D + 8)) << 9; }
    static void run_enum(std::uint64_t idx, Outcome& o, std::string* d)
    {
        if (idx >= lattice_size()) {
            long double v = corpus()[idx - lattice_size()];
            return check(static_cast<F>(v), o, d, true);
        }
        unsigned mant = unsigned(idx & 511);
        std::uint64_t r = idx >> 9;
        bool neg = r & 1;
        int e = int(r >> 1) - (D + 8);
        long double v = std::ldexp(1.0L + static_cast<long double>(mant) / 512.0L, e);
        check(static_cast<F>(neg ? -v : v), o, d);
    }
    static void reg(char const* name) { add_site({std::string("C17|") + (Route ? "make_fraction|" : "ctor|") + name, run, lattice_size() + corpus().size(), run_enum}); }
};
}  // namespace c17

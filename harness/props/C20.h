// C20 — exp2 and the mathematical constants are accurate to one unit in the last place
#pragma once
#include "../floatval.h"
#include "../scaledval.h"

#include <numbers>

namespace c20 {
using namespace vf;

inline mpq_class mpfr_to_q(mpfr_t x)
{
    mpq_class q;
    mpfr_get_q(q.get_mpq_t(), x);
    return q;
}

template<class Rep, int E>
struct Exp2 {
    using T = cnl::scaled_integer<Rep, cnl::power<E>>;
    static void check(Rep r, Outcome& o, std::string* d)
    {
        if (d) *d = "x_rep=" + istr(r);
        o.fp = fpn(r);
        mpq_class x = mkq(to_mpz(r)) * qpow(2, E);
        // true 2^x / 2^E at 256 bits, truncated to the result resolution
        mpfr_t fx, fy;
        mpfr_init2(fx, 256);
        mpfr_init2(fy, 256);
        mpfr_set_q(fx, x.get_mpq_t(), MPFR_RNDN);
        if (mpfr_cmp_si(fx, 200) > 0 || mpfr_cmp_si(fx, -400) < 0) {
            mpfr_clear(fx);
            mpfr_clear(fy);
            return o.discard("result-not-representable");
        }
        mpfr_exp2(fy, fx, MPFR_RNDN);
        mpfr_mul_2si(fy, fy, -E, MPFR_RNDN);
        mpq_class scaled = mpfr_to_q(fy);
        mpfr_clear(fx);
        mpfr_clear(fy);
        mpz_class t = q_floor(scaled);
        if (!fits<Rep>(t) || !fits<Rep>(mpz_class(t + 1))) return o.discard("result-not-representable");
        bool const integral = q_is_int(x);
        mpz_class got;
        bool ok = guard(o, [&] { got = rep_mpz(cnl::exp2(make_rep<T>(to_mpz(r)))); });
        if (!ok) return;
        mpz_class diff = abs(got - t);
        if (!(integral && q_is_int(scaled)) && (bits_v<Rep> <= 16 || !is_signed_int_v<Rep>)) o.region = "exp2/polynomial-precision";
        if (integral && q_is_int(scaled)) {
            if (got != t) return o.fail("exp2/integral-x-not-exact", "expected rep " + zstr(t) + " got " + zstr(got));
        } else if (diff > 1) {
            std::string n = diff <= 3 ? zstr(diff) : "many";
            // cause region: the polynomial is evaluated in an unsigned all-fraction type of the rep's own width
            // (signed reps get one guard bit from the unsigned intermediate, unsigned reps none)
            if (bits_v<Rep> <= 16 || !is_signed_int_v<Rep>) n = "polynomial-precision/" + n;
            return o.fail("exp2/off-by-" + n, "expected rep " + zstr(t) + " +-1, got " + zstr(got));
        }
        o.pass(!integral, integral ? "integral" : diff == 0 ? "exact-trunc"
                                                            : "within-one");
    }
    static void run(Words& w, Outcome& o, std::string* d)
    {
        Rep r = draw_int<Rep>(w);
        unsigned m = unsigned(w.next() % 4);
        if (m == 1 && E < 0 && -E < bits_v<Rep>) {  // neighbours of integers
            long k = draw_small(w, -8, 8);
            mpz_class z = (mpz_class(k) << -E) + (long(w.next() % 5) - 2);
            if (fits<Rep>(z)) r = from_mpz<Rep>(z);
        }
        if (m >= 2) {  // x = k + fraction with 2^x representable: k below the number of integer digits
            constexpr int digits = bits_v<Rep> - (is_signed_int_v<Rep> ? 1 : 0);
            int idig = digits + E;  // integer digits of the format
            long lo = is_signed_int_v<Rep> ? long(E) - 2 : 0, hi = idig > 0 ? idig - 1 : 0;
            if (lo < -(idig > 0 ? (long(1) << (idig > 20 ? 20 : idig)) : 1)) lo = -(idig > 0 ? (long(1) << (idig > 20 ? 20 : idig)) : 1);
            if (hi < lo) hi = lo;
            long k = draw_small(w, lo, hi);
            mpz_class z = E < 0 ? mpz_class((mpz_class(k) << -E) + to_mpz(w.next() & ((std::uint64_t{1} << (-E > 63 ? 63 : -E)) - 1))) : mpz_class(mpz_class(k) >> E);
            if (fits<Rep>(z)) r = from_mpz<Rep>(z);
        }
        check(r, o, d);
    }
    // 8/16-bit: every value; 32-bit: a 2^20-point lattice (every 4096th value)
    static constexpr std::uint64_t enum_size() { return bits_v<Rep> <= 16 ? (std::uint64_t{1} << bits_v<Rep>) : (std::uint64_t{1} << 20); }
    static void run_enum(std::uint64_t idx, Outcome& o, std::string* d)
    {
        using U = make_unsigned_t<Rep>;
        if constexpr (bits_v<Rep> <= 16)
            check(static_cast<Rep>(static_cast<U>(idx)), o, d);
        else
            check(static_cast<Rep>(static_cast<U>(idx << (bits_v<Rep> - 20)) + static_cast<U>(idx * 2654435761u % 4096u)), o, d);
    }
    static void reg(char const* name) { add_site({std::string("C20|exp2|") + name, run, enum_size(), run_enum}); }
};

// the 13 <numbers> constants for one (Rep, Exponent): case index = constant
template<class Rep, int E, int IntegerDigits>
struct Constants {
    using T = cnl::scaled_integer<Rep, cnl::power<E>>;
    static constexpr int n = 13;
    static char const* cname(int i)
    {
        static char const* nm[] = {"e", "log2e", "log10e", "pi", "inv_pi", "inv_sqrtpi", "ln2", "ln10", "sqrt2", "sqrt3", "inv_sqrt3", "egamma", "phi"};
        return nm[i];
    }
    static void truth(int i, mpfr_t c)
    {
        mpfr_t t;
        mpfr_init2(t, 320);
        switch (i) {
        case 0: mpfr_set_ui(t, 1, MPFR_RNDN), mpfr_exp(c, t, MPFR_RNDN); break;
        case 1: mpfr_const_log2(t, MPFR_RNDN), mpfr_ui_div(c, 1, t, MPFR_RNDN); break;
        case 2: mpfr_set_ui(t, 10, MPFR_RNDN), mpfr_log(t, t, MPFR_RNDN), mpfr_ui_div(c, 1, t, MPFR_RNDN); break;
        case 3: mpfr_const_pi(c, MPFR_RNDN); break;
        case 4: mpfr_const_pi(t, MPFR_RNDN), mpfr_ui_div(c, 1, t, MPFR_RNDN); break;
        case 5: mpfr_const_pi(t, MPFR_RNDN), mpfr_sqrt(t, t, MPFR_RNDN), mpfr_ui_div(c, 1, t, MPFR_RNDN); break;
        case 6: mpfr_const_log2(c, MPFR_RNDN); break;
        case 7: mpfr_set_ui(t, 10, MPFR_RNDN), mpfr_log(c, t, MPFR_RNDN); break;
        case 8: mpfr_sqrt_ui(c, 2, MPFR_RNDN); break;
        case 9: mpfr_sqrt_ui(c, 3, MPFR_RNDN); break;
        case 10: mpfr_sqrt_ui(t, 3, MPFR_RNDN), mpfr_ui_div(c, 1, t, MPFR_RNDN); break;
        case 11: mpfr_const_euler(c, MPFR_RNDN); break;
        default: mpfr_sqrt_ui(t, 5, MPFR_RNDN), mpfr_add_ui(t, t, 1, MPFR_RNDN), mpfr_div_2ui(c, t, 1, MPFR_RNDN); break;
        }
        mpfr_clear(t);
    }
    static constexpr int need_digits[13] = {2, 1, 0, 2, 0, 0, 0, 2, 1, 1, 0, 0, 1};  // integer digits each constant needs
    // only constants the format can hold are instantiated (the others are ill-formed by design: they do not fit)
    template<int I>
    static mpz_class value_of_constant()
    {
        using namespace std::numbers;
        if constexpr (need_digits[I] > IntegerDigits) {
            return 0;
        } else {
            if constexpr (I == 0) return rep_mpz(e_v<T>);
            if constexpr (I == 1) return rep_mpz(log2e_v<T>);
            if constexpr (I == 2) return rep_mpz(log10e_v<T>);
            if constexpr (I == 3) return rep_mpz(pi_v<T>);
            if constexpr (I == 4) return rep_mpz(inv_pi_v<T>);
            if constexpr (I == 5) return rep_mpz(inv_sqrtpi_v<T>);
            if constexpr (I == 6) return rep_mpz(ln2_v<T>);
            if constexpr (I == 7) return rep_mpz(ln10_v<T>);
            if constexpr (I == 8) return rep_mpz(sqrt2_v<T>);
            if constexpr (I == 9) return rep_mpz(sqrt3_v<T>);
            if constexpr (I == 10) return rep_mpz(inv_sqrt3_v<T>);
            if constexpr (I == 11) return rep_mpz(egamma_v<T>);
            if constexpr (I == 12) return rep_mpz(phi_v<T>);
        }
    }
    static void check(int i, Outcome& o, std::string* d)
    {
        if (d) *d = std::string("constant ") + cname(i);
        o.fp = fpn(i);
        // integer digits the constant needs
        if (need_digits[i] > IntegerDigits) return o.discard("constant-not-representable");
        mpfr_t c;
        mpfr_init2(c, 320);
        truth(i, c);
        mpfr_mul_2si(c, c, -E, MPFR_RNDN);
        mpq_class t = mpfr_to_q(c);
        mpfr_clear(c);
        mpz_class got;
        bool ok = guard(o, [&] {
            [&]<int... I>(std::integer_sequence<int, I...>) { ((i == I ? (void)(got = value_of_constant<I>()) : void()), ...); }
            (std::make_integer_sequence<int, n>{});
        });
        if (!ok) return;
        mpq_class err = abs(mkq(got) - t);
        if (err >= 1) return o.fail(std::string("constant/") + cname(i) + "/error-not-below-one-unit", "rep " + zstr(got) + " true " + zstr(q_floor(t)) + ".. err " + std::to_string(err.get_d()) + " units");
        o.pass(true, cname(i));
    }
    static void run(Words& w, Outcome& o, std::string* d) { check(int(w.next() % n), o, d); }
    static void run_enum(std::uint64_t idx, Outcome& o, std::string* d) { check(int(idx), o, d); }
    static void reg(char const* name) { add_site({std::string("C20|constants|") + name, run, n, run_enum}); }
};
}  // namespace c20

// C09 — narrowing conversions under a rounding mode are correctly rounded
#pragma once
#include "../floatval.h"
#include "../scaledval.h"
#include "../sweep.h"

namespace c09 {
using namespace vf;

enum Mode { TRUNC,
            FLOOR,
            HALF_AWAY,
            HALF_UP };
template<class Tag>
struct mode_of;
template<>
struct mode_of<cnl::native_rounding_tag> {
    static constexpr Mode value = TRUNC;
    static constexpr char const* name = "native";
};
template<>
struct mode_of<cnl::neg_inf_rounding_tag> {
    static constexpr Mode value = FLOOR;
    static constexpr char const* name = "neg_inf";
};
template<>
struct mode_of<cnl::nearest_rounding_tag> {
    static constexpr Mode value = HALF_AWAY;
    static constexpr char const* name = "nearest";
};
template<>
struct mode_of<cnl::tie_to_pos_inf_rounding_tag> {
    static constexpr Mode value = HALF_UP;
    static constexpr char const* name = "tie_to_pos_inf";
};

inline mpz_class round_q(mpq_class const& t, Mode m)
{
    switch (m) {
    case TRUNC: return q_trunc(t);
    case FLOOR: return q_floor(t);
    case HALF_AWAY: return q_round_half_away(t);
    default: return q_round_half_up(t);
    }
}

// Src: floating-point type, built-in integer or scaled_integer; Dst: integer-like destination (possibly a wrapper whose
// own tag is the rounding tag). Form 0: cnl::convert<Tag, Dst>{}(src); 1: Dst{src}; 2: assignment
// the representation one level down (a built-in integer is its own)
template<class T, bool Native>
struct inner_rep {
    using type = T;
};
template<class T>
struct inner_rep<T, false> {
    using type = cnl::_impl::rep_of_t<T>;
};

template<class Tag, class Src, class Dst, int Form, bool OverflowChecked = false>
struct Conv {
    static constexpr bool from_float = std::is_floating_point_v<Src>;
    using SI = scaled_info<Src>;
    using DI = scaled_info<Dst>;
    using DRep = typename DI::rep;
    static constexpr int radix = DI::is_scaled ? DI::radix : (SI::is_scaled ? SI::radix : 2);
    static constexpr int DE = DI::exponent;
    static constexpr Mode mode = mode_of<Tag>::value;

    template<class S>
    static void check_value(S const& src, mpq_class const& v, Outcome& o)
    {
        mpq_class unit = qpow(radix, DE);
        mpq_class t = v / unit;
        mpz_class expect = round_q(t, mode);
        if (!in_range<DRep>(expect)) return o.discard("rounded-result-not-representable");
        bool const exact = q_is_int(t);
        mpq_class frac = t - mkq(q_floor(t));
        bool const tie = frac == mkq(1, 2);
        bool const near_tie = !tie && abs(frac - mkq(1, 2)) < mkq(1, 1024);
        auto dr = range_of<DRep>();
        if constexpr (OverflowChecked) {
            // the destination also checks overflow (static_number): a source value outside [lowest, max] is an
            // overflow by that contract (C06/C11), whatever it would round to
            if (t > mkq(dr.second) || t < mkq(dr.first)) return o.discard("source-outside-overflow-checked-destination");
        }
        // cause regions recognisable from the input alone (DESIGN 3)
        std::string cause = "";
        mpq_class const half = mkq(1, 2);
        mpq_class const biased = (mode == HALF_AWAY && t < 0) ? mpq_class(t - half) : mpq_class(t + half);  // in destination units
        bool const biasing = mode == HALF_AWAY || mode == HALF_UP;
        if constexpr (from_float) {
            // which floating type the bias is added in: the source type, except nearest -> built-in integer (long double)
            bool ld = mode == HALF_AWAY && !DI::is_scaled && is_native_int_v<DRep>;
            bool rep_ok = ld ? representable_in<long double>(biased * unit) : representable_in<Src>(biased * unit);
            if (biasing && !rep_ok)
                cause = "bias-sum-not-representable-in-float/";
            else if (biasing && (biased >= mkq(dr.second) + 1 || biased <= mkq(dr.first) - 1))
                cause = "bias-leaves-destination-range/";
            else if (mode == HALF_UP && DI::is_scaled && biased < 0 && !q_is_int(biased))
                cause = "float-to-scaled-truncates-negative/";
            else if (mode == FLOOR && DI::is_scaled && t < 0 && !exact)
                cause = "float-to-scaled-truncates-negative/";
        } else {
            // a source whose representation is itself a rounding_integer scales by dividing that rounding_integer (as construction does)
            using SRepW = typename SI::rep;
            using SRepI = typename inner_rep<SRepW, is_native_int_v<SRepW>>::type;
            constexpr bool rounding_rep = !is_native_int_v<SRepW> && is_native_int_v<SRepI>;
            using SRep0 = std::conditional_t<rounding_rep, SRepI, SRepW>;
            constexpr int FormE = rounding_rep ? 1 : Form;
            if constexpr (is_native_int_v<SRep0>) {
                using PS = decltype(+std::declval<SRep0>());
                int sh = DE - SI::exponent;
                mpz_class zs = q_trunc(v / qpow(SI::radix, SI::exponent));
                if (sh < 0 && !fits<PS>(zs * zpow(radix, -sh)))
                    cause = "shifted-source-exceeds-source-type/";  // the C04 finding
                else if (sh > 0 && biasing) {
                    mpz_class unit_in_src = zpow(radix, sh);
                    if (FormE >= 1 && mode == HALF_UP && is_signed_int_v<SRep0> && zs == zmin<SRep0>())
                        cause = "abs-of-lowest/";  // construction divides through rounding_integer: the C08 finding
                    else if (!fits<SRep0>(unit_in_src))
                        cause = "destination-unit-not-representable-in-source/";
                    else {
                        mpz_class h = unit_in_src / 2;
                        mpz_class b = (mode == HALF_AWAY && zs < 0) ? mpz_class(zs - h) : mpz_class(zs + h);
                        if (!fits<PS>(b)) cause = "bias-overflows-source-rep/";
                        // construction/assignment divide through rounding_integer, which biases the magnitude
                        mpz_class mb = abs(zs) + (unit_in_src - (zs < 0 ? 1 : 0)) / 2;
                        if (FormE >= 1 && mode == HALF_UP && !fits<PS>(mb)) cause = "bias-overflows-source-rep/";
                    }
                }
            }
        }
        o.region = cause;
        mpz_class got;
        bool ok = guard(o, [&] {
            if constexpr (Form == 0) {
                got = rep_mpz(cnl::convert<Tag, Dst>{}(src));
            } else if constexpr (Form == 1) {
                Dst d{src};
                got = rep_mpz(d);
            } else {
                Dst d{};
                d = src;
                got = rep_mpz(d);
            }
        });
        if (!ok) {
            o.fclass = cause + (exact ? "exact/" : tie ? "tie/" : near_tie ? "near-tie/"
                                                                            : "inexact/")
                     + o.fclass;
            return;
        }
        if (got != expect) {
            std::string kind = exact ? "exact" : tie ? "tie"
                                             : near_tie ? "near-tie"
                                                        : (t < 0 ? "inexact-negative" : "inexact-positive");
            return o.fail(cause + kind + "/value-mismatch", "t=" + qstr(t) + " expected rep " + zstr(expect) + " got " + zstr(got));
        }
        o.pass(!exact, exact ? "exact" : tie ? "tie"
                                         : near_tie ? "near-tie"
                                                    : "inexact");
    }

    static void check_float(long double xl, Outcome& o, std::string* d)
    {
        if constexpr (from_float) {
            Src x = static_cast<Src>(xl);
            if (d) *d = "src=" + fstr(x);
            o.fp = fpn(static_cast<long double>(x));
            if (!std::isfinite(x)) return o.discard("non-finite");
            check_value(x, q_of_float(x), o);
        }
    }
    static void check_int(mpz_class const& zs, Outcome& o, std::string* d)
    {
        if constexpr (!from_float) {
            if (d) *d = "src_rep=" + zstr(zs);
            o.fp = fpn(zs);
            Src s = make_rep<Src>(zs);
            check_value(s, mkq(zs) * qpow(SI::radix, SI::exponent), o);
        }
    }

    static void run(Words& w, Outcome& o, std::string* d)
    {
        auto dr = range_of<DRep>();
        // target: t = k + f in destination units
        mpz_class k = draw_rep<DRep>(w);
        unsigned m = unsigned(w.next() % 8);
        if (m == 0) k = dr.second - long(w.next() % 2);
        if (m == 1) k = dr.first + long(w.next() % 2);
        if constexpr (from_float) {
            mpq_class f;
            switch (w.next() % 6) {
            case 0: f = 0; break;
            case 1: f = mkq(1, 2); break;
            case 2: f = mkq(1, 4); break;
            case 3: f = mkq(3, 4); break;
            default: f = mkq(to_mpz(w.next() >> 11), mpz_class(1) << 53); break;
            }
            // keep k small enough that the fraction survives in the source format
            constexpr int P = std::numeric_limits<Src>::digits;
            int kbits = int(w.next() % unsigned(P));
            if (m >= 2) {
                mpz_class mag = abs(k) & ((mpz_class(1) << kbits) - 1);
                k = k < 0 ? mpz_class(-mag) : mag;
            }
            mpq_class t = mkq(k) + f;
            mpq_class v = t * qpow(radix, DE);
            long double x = static_cast<long double>(v.get_d());
            {
                // exact conversion of v to long double where possible
                mpz_class n = v.get_num(), dd = v.get_den();
                long double xn = 0, sc = 1;
                mpz_class a = abs(n);
                while (a != 0) {
                    mpz_class lowp = a & 0xffffffffUL;
                    xn += sc * static_cast<long double>(lowp.get_ui());
                    sc *= 4294967296.0L;
                    a >>= 32;
                }
                long double xd = 0;
                sc = 1;
                a = dd;
                while (a != 0) {
                    mpz_class lowp = a & 0xffffffffUL;
                    xd += sc * static_cast<long double>(lowp.get_ui());
                    sc *= 4294967296.0L;
                    a >>= 32;
                }
                x = (n < 0 ? -xn : xn) / xd;
            }
            Src xs = static_cast<Src>(x);
            int ulps = int(w.next() % 5) - 2;
            if (w.next() % 2 == 0) ulps = 0;
            for (int i = 0; i < (ulps < 0 ? -ulps : ulps); ++i)
                xs = std::nextafter(xs, ulps < 0 ? -std::numeric_limits<Src>::infinity() : std::numeric_limits<Src>::infinity());
            check_float(static_cast<long double>(xs), o, d);
        } else {
            using SRep = typename SI::rep;
            // source rep: t * radix^(DE-SE) + small offset
            int sh = DE - SI::exponent;
            mpz_class zs;
            if (sh > 0) {
                mpz_class scale = zpow(radix, sh);
                mpz_class off;
                switch (w.next() % 6) {
                case 0: off = 0; break;
                case 1: off = scale / 2; break;
                case 2: off = scale / 2 + 1; break;
                case 3: off = scale / 2 - 1; break;
                default: off = to_mpz(w.next()) % scale; break;
                }
                zs = k * scale + off;
            } else {
                mpz_class scale = zpow(radix, -sh);
                zs = q_trunc(mkq(k, scale));
            }
            if (!in_range<SRep>(zs)) zs = draw_rep<SRep>(w);
            check_int(zs, o, d);
        }
    }
    static constexpr std::uint64_t enum_size()
    {
        if constexpr (!from_float && is_native_int_v<typename SI::rep>) return bits_v<typename SI::rep> <= 16 ? (std::uint64_t{1} << bits_v<typename SI::rep>) : 0;
        return 0;
    }
    static void run_enum(std::uint64_t idx, Outcome& o, std::string* d)
    {
        if constexpr (!from_float && is_native_int_v<typename SI::rep>) {
            using SRep = typename SI::rep;
            using U = make_unsigned_t<SRep>;
            check_int(to_mpz(static_cast<SRep>(static_cast<U>(idx))), o, d);
        }
    }
    static void reg(char const* name)
    {
        add_site({std::string("C09|") + (Form == 0 ? "convert|" : Form == 1 ? "ctor|"
                                                                             : "assign|")
                          + mode_of<Tag>::name + "|" + name,
                  run, enum_size(), run_enum});
    }
};
}  // namespace c09

// C03 — comparisons agree with the mathematical order of the represented values
#pragma once
#include "../scaledval.h"
#include "../sweep.h"

namespace c03 {
using namespace vf;

template<class A, class B>
std::array<bool, 6> six(A const& a, B const& b)
{
    return {a == b, a != b, a < b, a <= b, a > b, a >= b};
}
inline std::array<bool, 6> six_from_order(int ord) { return {ord == 0, ord != 0, ord < 0, ord <= 0, ord > 0, ord >= 0}; }
inline char const* opn(int i)
{
    static char const* n[] = {"==", "!=", "<", "<=", ">", ">="};
    return n[i];
}

// Mode 0: by-value order (Mode 2: the same, wide_integer family). Mode 1: both reps are built-in integers: built-in comparison of the exponent-aligned reps.
template<class L, class R, int Mode>
struct Cmp {
    using LI = scaled_info<L>;
    using RI = scaled_info<R>;
    using LRep = typename LI::rep;
    using RRep = typename RI::rep;
    static constexpr int EL = LI::exponent, ER = RI::exponent;
    static constexpr int radix = LI::is_scaled ? LI::radix : RI::radix;
    static constexpr int Emin = EL < ER ? EL : ER;

    static void check(mpz_class const& za, mpz_class const& zb, Outcome& o, std::string* d)
    {
        if (d) *d = "a_rep=" + zstr(za) + " b_rep=" + zstr(zb);
        o.fp = fpn(za, zb);
        mpq_class va = mkq(za) * qpow(radix, EL), vb = mkq(zb) * qpow(radix, ER);
        int ord = cmp(va, vb);
        bool mixed_unsigned_common = false;
        if constexpr (Mode == 1) {
            using PL = decltype(+std::declval<LRep>());
            using PR = decltype(+std::declval<RRep>());
            mpz_class al = za * zpow(radix, EL - Emin), ar = zb * zpow(radix, ER - Emin);
            // precondition: the exponent alignment fits the promoted rep
            if (!fits<PL>(al) || !fits<PR>(ar)) return o.discard("alignment-does-not-fit");
            using C = decltype(std::declval<PL>() + std::declval<PR>());
            if (!fits<C>(al) || !fits<C>(ar)) {
                // different signedness, common type unsigned, a negative operand: the built-in comparison of the aligned reps
                mixed_unsigned_common = true;
                C cl = wrap_to<C>(al), cr = wrap_to<C>(ar);
                ord = cl < cr ? -1 : cl > cr ? 1
                                             : 0;
            }
        }
        L a = make_rep<L>(za);
        R b = make_rep<R>(zb);
        std::array<bool, 6> got{}, got_rev{};
        bool ok = guard(o, [&] {
            got = six(a, b);
            got_rev = six(b, a);
        });
        if (!ok) return;
        auto expect = six_from_order(ord), expect_rev = six_from_order(-ord);
        std::string family = mixed_unsigned_common ? "builtin-semantics/" : "by-value/";
        if constexpr (Mode == 2 && !std::is_same_v<L, R>) {
            // wide_integer operands of different types: cause region "an operand is not representable in the other operand's type"
            if (!in_range<RRep>(za) || !in_range<LRep>(zb)) family = "by-value/operand-not-representable-in-other-wide-type/", o.region = family;
        }
        for (int i = 0; i < 6; ++i) {
            if (got[i] != expect[i])
                return o.fail(family + "value-mismatch",
                              std::string("a ") + opn(i) + " b expected " + (expect[i] ? "true" : "false"));
            if (got_rev[i] != expect_rev[i])
                return o.fail(family + "reversed-mismatch",
                              std::string("b ") + opn(i) + " a expected " + (expect_rev[i] ? "true" : "false"));
        }
        mpq_class unit = qpow(radix, EL > ER ? EL : ER);
        bool close = abs(va - vb) <= unit;
        bool opposite = sgn(va) * sgn(vb) < 0;
        o.pass((!std::is_same_v<L, R>)&&(close || opposite), mixed_unsigned_common ? "builtin-mixed-sign" : ord == 0 ? "equal"
                                                                                         : close      ? "within-one-unit"
                                                                                         : opposite   ? "opposite-signs"
                                                                                                      : "apart");
    }
    static void run(Words& w, Outcome& o, std::string* d)
    {
        mpz_class za = draw_rep<LRep>(w), zb;
        unsigned m = unsigned(w.next() % 4);
        if (m == 0) {
            zb = draw_rep<RRep>(w);
        } else {
            // correlated: b denotes (nearly) the same value as a, expressed at b's exponent
            if (m == 3) {  // keep a small so that it is representable on both sides
                auto rr = range_of<RRep>();
                int dr = int(mpz_sizeinbase(rr.second.get_mpz_t(), 2));
                int keep = dr - int(double(std::abs(EL - ER)) * (radix == 10 ? 3.33 : 1.0)) - int(w.next() % 4);
                if (keep < 1) keep = 1;
                mpz_class mag = abs(za) & ((mpz_class(1) << keep) - 1);
                za = za < 0 ? mpz_class(-mag) : mag;
            }
            mpq_class va = mkq(za) * qpow(radix, EL);
            mpq_class t = va / qpow(radix, ER);
            zb = (w.next() & 1) ? q_floor(t) : q_ceil(t);
            zb += long(w.next() % 3) - 1;
            if (!in_range<RRep>(zb)) zb = draw_rep<RRep>(w);
        }
        if (!in_range<LRep>(za)) za = 0;
        check(za, zb, o, d);
    }
    static constexpr std::uint64_t enum_size()
    {
        if constexpr (is_native_int_v<LRep> && is_native_int_v<RRep>) return (bits_v<LRep> + bits_v<RRep> <= 16) ? (1u << 16) : 0;
        return 0;
    }
    static void run_enum(std::uint64_t idx, Outcome& o, std::string* d)
    {
        if constexpr (is_native_int_v<LRep> && is_native_int_v<RRep>) {
            using UL = make_unsigned_t<LRep>;
            using UR = make_unsigned_t<RRep>;
            check(to_mpz(static_cast<LRep>(static_cast<UL>(idx))), to_mpz(static_cast<RRep>(static_cast<UR>(idx >> 8))), o, d);
        }
    }
    static void reg(char const* name) { add_site({std::string("C03|") + name, run, enum_size(), run_enum}); }
};

// comparing with a built-in integer gives the same answer as comparing with that integer wrapped in the same CNL type
// T: CNL number type; B: built-in integer type; W: "B wrapped in the same CNL family" (given by the emitter)
template<class T, class B, class W>
struct VsBuiltin {
    using TI = scaled_info<T>;
    using TRep = typename TI::rep;
    static void check(mpz_class const& za, B b, Outcome& o, std::string* d)
    {
        if (d) *d = "x_rep=" + zstr(za) + " builtin=" + istr(b);
        o.fp = fpn(za, b);
        // the built-in operand is lifted to a number with a built-in rep and aligned to x's exponent in its promoted type
        std::string cause = "";
        {
            using PB = decltype(+b);
            constexpr int E = TI::exponent;
            bool fits_b = E >= 0 || fits<PB>(to_mpz(b) * zpow(TI::radix, E < 0 ? -E : 0));
            bool fits_x = true;
            if constexpr (is_native_int_v<TRep>) {
                using PX = decltype(+std::declval<TRep>());
                fits_x = E <= 0 || fits<PX>(za * zpow(TI::radix, E > 0 ? E : 0));
            }
            if (!fits_b || !fits_x) {
                if constexpr (is_native_int_v<TRep>)
                    return o.discard("alignment-does-not-fit");
                else
                    cause = "builtin-operand-alignment-does-not-fit/", o.region = "vs-builtin/" + cause;
            }
        }
        T x = make_rep<T>(za);
        std::array<bool, 6> g1{}, g2{}, g3{}, g4{};
        bool ok = guard(o, [&] {
            W wb{b};
            g1 = six(x, b);
            g2 = six(x, wb);
            g3 = six(b, x);
            g4 = six(wb, x);
        });
        if (!ok) {
            o.fclass = "vs-builtin/" + cause + o.fclass;
            return;
        }
        for (int i = 0; i < 6; ++i) {
            if (g1[i] != g2[i]) return o.fail("vs-builtin/" + cause + "differs-from-wrapped", std::string("x ") + opn(i) + " builtin");
            if (g3[i] != g4[i]) return o.fail("vs-builtin/" + cause + "differs-from-wrapped-reversed", std::string("builtin ") + opn(i) + " x");
        }
        o.pass(true, "vs-builtin");
    }
    static void run(Words& w, Outcome& o, std::string* d)
    {
        mpz_class za = draw_rep<TRep>(w);
        B b = draw_int<B>(w);
        if (w.next() & 1) {  // correlated
            mpq_class v = mkq(za) * qpow(TI::radix, TI::exponent);
            mpz_class t = q_floor(v) + (long(w.next() % 3) - 1);
            if (fits<B>(t)) b = from_mpz<B>(t);
        }
        check(za, b, o, d);
    }
    static void reg(char const* name) { add_site({std::string("C03|vs_builtin|") + name, run, 0, nullptr}); }
};
}  // namespace c03

// C04 — conversions preserve value or truncate toward zero at destination resolution
#pragma once
#include "../floatval.h"
#include "../sweep.h"
#include "../scaledval.h"

namespace c04 {
using namespace vf;

template<class T>
inline constexpr bool is_float_v = std::is_floating_point_v<T>;

// shrink |z| so that z * radix^(SE) / radix^(DE) fits DRep; keeps low bits (so that digits are really lost)
template<class DRep>
mpz_class fit_to(mpz_class z, int radix, int se, int de)
{
    auto dr = range_of<DRep>();
    for (int i = 0; i < 200; ++i) {
        mpz_class t = q_trunc(mkq(z) * qpow(radix, se - de));
        if (t >= dr.first && t <= dr.second) return z;
        // drop the top bit of the magnitude
        mpz_class m = abs(z);
        if (m == 0) return z;
        std::size_t n = mpz_sizeinbase(m.get_mpz_t(), 2);
        m &= (mpz_class(1) << (n - 1)) - 1;
        z = z < 0 ? mpz_class(-m) : m;
    }
    return 0;
}

////////////////////////////////////////////////////////////////////////////////
// integer-like source (scaled_integer or built-in) -> integer-like destination
// Route 0: static_cast<Dst>(src)   Route 1: Dst d = src (copy-initialisation / assignment)
template<class Src, class Dst, int Route>
struct I2I {
    using SI = scaled_info<Src>;
    using DI = scaled_info<Dst>;
    using SRep = typename SI::rep;
    using DRep = typename DI::rep;
    static constexpr int radix = SI::is_scaled ? SI::radix : DI::radix;
    static constexpr int SE = SI::exponent, DE = DI::exponent;

    static void check(mpz_class const& zs, Outcome& o, std::string* d)
    {
        if (d) *d = "src_rep=" + zstr(zs);
        o.fp = fpn(zs);
        mpq_class v = mkq(zs) * qpow(radix, SE);
        mpq_class t = v / qpow(radix, DE);
        mpz_class expect = q_trunc(t);
        if (!in_range<DRep>(expect)) return o.discard("outside-destination-range");
        bool const exact = q_is_int(t);
        // cause region: a left shift is needed (destination finer) and the shifted source does not fit the
        // promoted *source* rep although it fits the destination
        std::string cause = "";
        if constexpr (is_native_int_v<SRep>) {
            using PS = decltype(+std::declval<SRep>());
            // (or the factor radix^(SE - DE) itself does not exist in that type: 10^14 as an int, even when the source is 0)
            if (SE > DE && (!fits<PS>(zs * zpow(radix, SE - DE)) || !fits<PS>(zpow(radix, SE - DE)))) cause = "shifted-source-exceeds-source-type/";
        }
        o.region = cause;
        Src s = make_rep<Src>(zs);
        mpz_class got;
        bool ok = guard(o, [&] {
            if constexpr (Route == 0) {
                got = rep_mpz(static_cast<Dst>(s));
            } else {
                Dst dd{};
                dd = s;
                Dst d2 = s;
                got = rep_mpz(dd);
                if (rep_mpz(d2) != got) got = got + 1000003;  // copy-init and assignment must agree
            }
        });
        if (!ok) {
            o.fclass = cause + o.fclass;
            return;
        }
        if (got != expect)
            return o.fail(cause + (exact ? "value-not-preserved" : "not-truncated-toward-zero"), "expected rep " + zstr(expect) + " got " + zstr(got));
        o.pass(!exact || rep_width<SRep>() != rep_width<DRep>(), exact ? (SE == DE ? "exact-same-exponent" : "exact") : (zs < 0 ? "truncated-negative" : "truncated-positive"));
    }
    static void run(Words& w, Outcome& o, std::string* d)
    {
        mpz_class zs = draw_rep<SRep>(w);
        if (w.next() % 4) zs = fit_to<DRep>(zs, radix, SE, DE);
        check(zs, o, d);
    }
    static constexpr std::uint64_t enum_size()
    {
        if constexpr (is_native_int_v<SRep>) return bits_v<SRep> <= 16 ? (std::uint64_t{1} << bits_v<SRep>) : 0;
        return 0;
    }
    static void run_enum(std::uint64_t idx, Outcome& o, std::string* d)
    {
        if constexpr (is_native_int_v<SRep>) {
            using U = make_unsigned_t<SRep>;
            check(to_mpz(static_cast<SRep>(static_cast<U>(idx))), o, d);
        }
    }
    static void reg(char const* name) { add_site({std::string("C04|i2i|") + name + (Route ? "|assign" : "|cast"), run, enum_size(), run_enum}); }
};

////////////////////////////////////////////////////////////////////////////////
// scaled_integer of one radix -> scaled_integer of another radix (10 <-> 2, 3 <-> 10, ...): exact when representable, else truncated
// toward zero at the destination resolution. Precondition (as for same-radix conversions): the scaled-up intermediate
// rep x SrcRadix^max(SE,0) x DstRadix^max(-DE,0) fits the promoted source and destination representations.
template<class Src, class Dst, int Route>
struct I2IX {
    using SI = scaled_info<Src>;
    using DI = scaled_info<Dst>;
    using SRep = typename SI::rep;
    using DRep = typename DI::rep;
    static constexpr int SE = SI::exponent, DE = DI::exponent, SR = SI::radix, DR = DI::radix;
    static void check(mpz_class const& zs, Outcome& o, std::string* d)
    {
        if (d) *d = "src_rep=" + zstr(zs);
        o.fp = fpn(zs);
        mpq_class v = mkq(zs) * qpow(SR, SE);
        mpq_class t = v / qpow(DR, DE);
        mpz_class expect = q_trunc(t);
        if (!in_range<DRep>(expect)) return o.discard("outside-destination-range");
        mpz_class up = zs * zpow(SR, SE > 0 ? SE : 0) * zpow(DR, DE < 0 ? -DE : 0);
        using PS = decltype(+std::declval<SRep>());
        using PD = decltype(+std::declval<DRep>());
        if (!fits<PS>(up) || !fits<PD>(up)) return o.discard("scaled-up-intermediate-does-not-fit");
        bool const exact = q_is_int(t);
        // cause region (the listed C04 finding): the scaling is carried out in the source representation type itself
        std::string const cause = fits<SRep>(up) ? "cross-radix/" : "shifted-source-exceeds-source-type/";
        if (!fits<SRep>(up)) o.region = cause;
        Src s = make_rep<Src>(zs);
        mpz_class got;
        bool ok = guard(o, [&] {
            if constexpr (Route == 0) {
                got = rep_mpz(static_cast<Dst>(s));
            } else {
                Dst dd{};
                dd = s;
                got = rep_mpz(dd);
            }
        });
        if (!ok) {
            o.fclass = cause + o.fclass;
            return;
        }
        if (got != expect) return o.fail(cause + (exact ? "value-not-preserved" : "not-truncated-toward-zero"), "expected rep " + zstr(expect) + " got " + zstr(got));
        o.pass(true, exact ? "exact" : (zs < 0 ? "truncated-negative" : "truncated-positive"));
    }
    static void run(Words& w, Outcome& o, std::string* d)
    {
        mpz_class zs = draw_rep<SRep>(w);
        // shrink so that the scaled-up intermediate fits in most cases
        if (w.next() % 8) {
            mpz_class f = zpow(SR, SE > 0 ? SE : 0) * zpow(DR, DE < 0 ? -DE : 0);
            using PS = decltype(+std::declval<SRep>());
            mpz_class lim = zmax<PS>() / f;
            if (lim > 0 && abs(zs) > lim) zs %= lim + 1;
        }
        check(zs, o, d);
    }
    static constexpr std::uint64_t enum_size() { return bits_v<SRep> <= 16 ? (std::uint64_t{1} << bits_v<SRep>) : 0; }
    static void run_enum(std::uint64_t idx, Outcome& o, std::string* d)
    {
        using U = make_unsigned_t<SRep>;
        check(to_mpz(static_cast<SRep>(static_cast<U>(idx))), o, d);
    }
    static void reg(char const* name) { add_site({std::string("C04|i2ix|") + name + (Route ? "|assign" : "|cast"), run, enum_size(), run_enum}); }
};

////////////////////////////////////////////////////////////////////////////////
// floating point -> integer-like (radix 2 only)
template<class F, class Dst>
struct F2I {
    using DI = scaled_info<Dst>;
    using DRep = typename DI::rep;
    static constexpr int DE = DI::exponent;
    static void check(F x, Outcome& o, std::string* d)
    {
        if (d) *d = "src=" + fstr(x);
        o.fp = fpn(static_cast<long double>(x));
        if (!std::isfinite(x)) return o.discard("non-finite");
        mpq_class t = q_of_float(x) / qpow(2, DE);
        mpz_class expect = q_trunc(t);
        if (!in_range<DRep>(expect)) return o.discard("outside-destination-range");
        mpz_class got;
        bool ok = guard(o, [&] { got = rep_mpz(static_cast<Dst>(x)); });
        if (!ok) return;
        bool exact = q_is_int(t);
        if (got != expect) return o.fail(exact ? "value-not-preserved" : "not-truncated-toward-zero", "expected rep " + zstr(expect) + " got " + zstr(got));
        o.pass(true, exact ? "exact" : (x < 0 ? "truncated-negative" : "truncated-positive"));
    }
    static void run(Words& w, Outcome& o, std::string* d)
    {
        auto dr = range_of<DRep>();
        int top = int(mpz_sizeinbase(dr.second.get_mpz_t(), 2)) + DE;  // exponent of the largest representable magnitude
        F x = draw_float<F>(w, top - std::numeric_limits<F>::digits - 6, top);
        if (dr.first == 0 && x < 0 && (w.next() % 4)) x = -x;
        check(x, o, d);
    }
    static void reg(char const* name) { add_site({std::string("C04|f2i|") + name, run, 0, nullptr}); }
};

////////////////////////////////////////////////////////////////////////////////
// integer-like -> floating point: correctly rounded; round trip identity when the float has enough digits
template<class Src, class F>
struct I2F {
    using SI = scaled_info<Src>;
    using SRep = typename SI::rep;
    static constexpr int SE = SI::exponent;
    static void check(mpz_class const& zs, Outcome& o, std::string* d)
    {
        if (d) *d = "src_rep=" + zstr(zs);
        o.fp = fpn(zs);
        mpq_class v = mkq(zs) * qpow(SI::radix, SE);
        F expect = nearest_float<F>(v);
        Src s = make_rep<Src>(zs);
        F got{};
        mpz_class back;
        auto sr = range_of<SRep>();
        int src_digits = int(mpz_sizeinbase(sr.second.get_mpz_t(), 2));
        bool round_trip = SI::radix == 2 && std::numeric_limits<F>::digits >= src_digits;
        bool ok = guard(o, [&] {
            got = static_cast<F>(s);
            if (round_trip) back = rep_mpz(static_cast<Src>(got));
        });
        if (!ok) return;
        if (std::memcmp(&got, &expect, sizeof(F) == 16 ? 10 : sizeof(F)) != 0 && !(got == expect))
            return o.fail("to-float/not-correctly-rounded", "expected " + fstr(expect) + " got " + fstr(got));
        if (round_trip && back != zs) return o.fail("to-float/round-trip", "expected rep " + zstr(zs) + " got " + zstr(back));
        bool inexact = q_of_float(expect) != v;
        o.pass(true, inexact ? "rounded" : (round_trip ? "exact+round-trip" : "exact"));
    }
    static void run(Words& w, Outcome& o, std::string* d) { check(draw_rep<SRep>(w), o, d); }
    static constexpr std::uint64_t enum_size()
    {
        if constexpr (is_native_int_v<SRep>) return bits_v<SRep> <= 16 ? (std::uint64_t{1} << bits_v<SRep>) : 0;
        return 0;
    }
    static void run_enum(std::uint64_t idx, Outcome& o, std::string* d)
    {
        if constexpr (is_native_int_v<SRep>) {
            using U = make_unsigned_t<SRep>;
            check(to_mpz(static_cast<SRep>(static_cast<U>(idx))), o, d);
        }
    }
    static void reg(char const* name) { add_site({std::string("C04|i2f|") + name, run, enum_size(), run_enum}); }
};

////////////////////////////////////////////////////////////////////////////////
// from_rep/to_rep and wrap/unwrap are exact inverses. T: any (nested) CNL number type
template<class T>
struct Inverse {
    using Rep = cnl::_impl::rep_of_t<T>;
    using Inner = std::remove_cvref_t<decltype(cnl::unwrap(std::declval<T>()))>;
    static void check(mpz_class const& z, Outcome& o, std::string* d)
    {
        if (d) *d = "rep=" + zstr(z);
        o.fp = fpn(z);
        mpz_class r1, r2, r3, r4;
        bool same = true;
        bool ok = guard(o, [&] {
            Rep r = make_rep<Rep>(z);
            T x = cnl::_impl::from_rep<T>(r);
            r1 = rep_mpz(cnl::_impl::to_rep(x));  // to_rep(from_rep(r)) == r
            T y = cnl::_impl::from_rep<T>(cnl::_impl::to_rep(x));
            r2 = rep_mpz(y);  // from_rep(to_rep(x)) == x
            Inner in = cnl::unwrap(x);
            r3 = rep_mpz(in);
            T zed = cnl::wrap<T>(in);  // wrap(unwrap(x)) == x
            r4 = rep_mpz(zed);
            same = (zed == x) && (y == x);
        });
        if (!ok) return;
        if (r1 != z || r2 != z) return o.fail("from_rep-to_rep-not-inverse", "got " + zstr(r1) + ", " + zstr(r2));
        if (r3 != z || r4 != z || !same) return o.fail("wrap-unwrap-not-inverse", "got " + zstr(r3) + ", " + zstr(r4));
        o.pass(z != 0, "inverse");
    }
    static void run(Words& w, Outcome& o, std::string* d)
    {
        auto r = range_of<Rep>();
        mpz_class z = draw_rep<Rep>(w);
        if (z < r.first || z > r.second) z = 0;
        check(z, o, d);
    }
    static void reg(char const* name) { add_site({std::string("C04|inverse|") + name, run, 0, nullptr}); }
};
}  // namespace c04

// C05 — elastic_integer arithmetic never overflows and stays within its declared digits
#pragma once
#include "../scaledval.h"
#include "../sweep.h"

namespace c05 {
using namespace vf;

template<class T>
constexpr int declared_digits = cnl::digits_v<T>;
template<class T>
constexpr bool declared_signed = cnl::numbers::signedness_v<T>;

// declared range of an elastic type with D digits
inline mpz_class dmax(int d) { return (mpz_class(1) << d) - 1; }

template<class T>
mpz_class draw_declared(Words& w)
{
    return draw_mpz(w, declared_digits<T>, declared_signed<T>);
}

// checks that a result of elastic type holds `exact` and respects its own declared range and numeric_limits
template<class Res>
bool judge_result(char const* opname, Res const& res, mpz_class const& exact, Outcome& o)
{
    constexpr int RD = declared_digits<Res>;
    mpz_class got = rep_mpz(res);
    mpz_class hi = dmax(RD), lo = declared_signed<Res> ? mpz_class(-hi) : mpz_class(0);
    if (rep_mpz(std::numeric_limits<Res>::max()) != hi || rep_mpz(std::numeric_limits<Res>::lowest()) != lo) {
        o.fail(std::string(opname) + "/numeric_limits", "digits " + std::to_string(RD) + " max " + zstr(rep_mpz(std::numeric_limits<Res>::max())));
        return false;
    }
    if (got != exact) {
        o.fail(std::string(opname) + "/value-mismatch", "expected " + zstr(exact) + " got " + zstr(got));
        return false;
    }
    if (got < lo || got > hi) {
        o.fail(std::string(opname) + "/result-outside-declared-range", "value " + zstr(got) + " digits " + std::to_string(RD));
        return false;
    }
    return true;
}

template<class L, class R, bool WithMul>
struct Bin {
    static constexpr int LD = declared_digits<L>, RD = declared_digits<R>;
    static constexpr int n_ops = 12;
    static char const* opname(int op)
    {
        static char const* n[] = {"+", "-", "*", "/", "%", "neg", "==", "!=", "<", "<=", ">", ">="};
        return n[op];
    }
    static void check(int op, mpz_class const& za, mpz_class const& zb, Outcome& o, std::string* d)
    {
        if (d) *d = std::string(opname(op)) + " a=" + zstr(za) + " b=" + zstr(zb);
        o.fp = fpn(za, zb, op);
        if ((op == 3 || op == 4) && zb == 0) return o.discard("zero-divisor");
        if (op == 2 && !WithMul) return o.discard("product-exceeds-widest-storage");
        L a = make_rep<L>(za);
        R b = make_rep<R>(zb);
        // cause region recognised from the operands: for / and % both operands are converted to the result rep,
        // whose digit count is that of the dividend (/) or the smaller of the two (%)
        std::string cause = "";
        if (op == 3 && abs(zb) > dmax(LD)) cause = "divisor-wider-than-result/";
        if (op == 4 && (abs(za) > dmax(LD < RD ? LD : RD) || abs(zb) > dmax(LD < RD ? LD : RD))) cause = "operand-wider-than-result/";
        o.region = cause;
        bool good = true;
        bool ok = guard(o, [&] {
            mpz_class t;
            switch (op) {
            case 0: good = judge_result("+", a + b, za + zb, o); break;
            case 1: good = judge_result("-", a - b, za - zb, o); break;
            case 2:
                if constexpr (WithMul) good = judge_result("*", a * b, za * zb, o);
                break;
            case 3:
                mpz_tdiv_q(t.get_mpz_t(), za.get_mpz_t(), zb.get_mpz_t());
                good = judge_result("/", a / b, t, o);
                break;
            case 4:
                mpz_tdiv_r(t.get_mpz_t(), za.get_mpz_t(), zb.get_mpz_t());
                good = judge_result("%", a % b, t, o);
                break;
            case 5: good = judge_result("neg", -a, -za, o); break;
            default: {
                int ord = cmp(za, zb);
                bool e[6] = {ord == 0, ord != 0, ord < 0, ord <= 0, ord > 0, ord >= 0};
                bool g[6] = {a == b, a != b, a < b, a <= b, a > b, a >= b};
                if (g[op - 6] != e[op - 6]) {
                    o.fail(std::string("cmp") + opname(op) + "/value-mismatch", std::string("expected ") + (e[op - 6] ? "true" : "false"));
                    good = false;
                }
            }
            }
        });
        if (!ok || !good) {
            o.fclass = cause + o.fclass;
            return;
        }
        bool extreme = abs(za) == dmax(LD) || abs(zb) == dmax(RD);
        o.pass(LD != RD || extreme, extreme ? "operand-at-extreme" : opname(op));
    }
    static void run(Words& w, Outcome& o, std::string* d)
    {
        int op = int(draw_small(w, 0, n_ops - 1));
        mpz_class za = draw_declared<L>(w), zb = draw_declared<R>(w);
        unsigned m = unsigned(w.next() % 8);
        if (m == 0) za = (w.next() & 1) && declared_signed<L> ? mpz_class(-dmax(LD)) : dmax(LD);
        if (m == 1) zb = (w.next() & 1) && declared_signed<R> ? mpz_class(-dmax(RD)) : dmax(RD);
        if (m == 2) zb = (w.next() & 1) && declared_signed<R> ? -1 : 1;
        if (m == 3 && (op == 3 || op == 4)) {  // divisor just above what the dividend's rep can hold
            mpz_class t = dmax(LD) + 1 + long(w.next() % 3);
            if (t <= dmax(RD)) zb = (w.next() & 1) && declared_signed<R> ? mpz_class(-t) : t;
        }
        check(op, za, zb, o, d);
    }
    static constexpr std::uint64_t enum_size() { return (LD + RD + (declared_signed<L> ? 1 : 0) + (declared_signed<R> ? 1 : 0)) <= 18 ? (std::uint64_t{n_ops} << 18) : 0; }
    static void run_enum(std::uint64_t idx, Outcome& o, std::string* d)
    {
        // 9 bits per operand: sign + magnitude, values outside the declared range are skipped
        auto dec = [](std::uint64_t v, int digits, bool sg, bool& okv) {
            mpz_class m = mpz_class(static_cast<unsigned long>(v & 0xff));
            bool neg = (v >> 8) & 1;
            okv = m <= dmax(digits) && (!neg || (sg && m != 0));
            return neg ? mpz_class(-m) : m;
        };
        bool ok1, ok2;
        mpz_class za = dec(idx & 0x1ff, LD, declared_signed<L>, ok1), zb = dec((idx >> 9) & 0x1ff, RD, declared_signed<R>, ok2);
        if (!ok1 || !ok2) return o.discard("not-a-case");
        check(int(idx >> 18), za, zb, o, d);
    }
    static void reg(char const* name) { add_site({std::string("C05|bin|") + name, run, enum_size(), run_enum}); }
};

// shifts by a compile-time constant
template<class T, int N>
struct Shift {
    static constexpr int D = declared_digits<T>;
    static void check(int dir, mpz_class const& za, Outcome& o, std::string* d)
    {
        if (d) *d = std::string(dir ? ">>" : "<<") + std::to_string(N) + " a=" + zstr(za);
        o.fp = fpn(za, dir);
        T a = make_rep<T>(za);
        bool good = true;
        // cause region: >> is an arithmetic (floor) shift of the two's-complement rep; for negative a the floor can be
        // -(2^(D-N)), one below the symmetric lowest value the result type declares
        std::string cause = "";
        {
            mpz_class t;
            mpz_fdiv_q_2exp(t.get_mpz_t(), za.get_mpz_t(), N);
            if (dir == 1 && za < 0 && t < -dmax(D - N)) cause = "floor-below-symmetric-lowest/";
        }
        o.region = cause;
        bool ok = guard(o, [&] {
            if (dir == 0)
                good = judge_result("shl-constant", a << cnl::constant<N>{}, za << N, o);
            else {
                mpz_class t;
                mpz_fdiv_q_2exp(t.get_mpz_t(), za.get_mpz_t(), N);
                good = judge_result("shr-constant", a >> cnl::constant<N>{}, t, o);
            }
        });
        if (!ok || !good) {
            o.fclass = cause + o.fclass;
            return;
        }
        o.pass(abs(za) == dmax(D) || za < 0, dir ? ">>" : "<<");
    }
    static void run(Words& w, Outcome& o, std::string* d)
    {
        int dir = int(w.next() & 1);
        mpz_class za = draw_declared<T>(w);
        if (w.next() % 8 == 0) za = dmax(D);
        check(dir, za, o, d);
    }
    static void reg(char const* name) { add_site({std::string("C05|shift|") + name, run, 0, nullptr}); }
};
// elastic_scaled_integer: + - * unary - are exact, comparisons follow the values, whatever the digit counts and exponents
template<class L, class R>
struct Esi {
    using LI = scaled_info<L>;
    using RI = scaled_info<R>;
    static constexpr int LD = declared_digits<L>, RD = declared_digits<R>;
    static constexpr int n_ops = 12;
    static char const* opname(int op)
    {
        static char const* n[] = {"+", "-", "*", "neg", "==", "!=", "<", "<=", ">", ">=", "+=", "-="};
        return n[op];
    }
    static void check(int op, mpz_class const& za, mpz_class const& zb, Outcome& o, std::string* d)
    {
        if (d) *d = std::string(opname(op)) + " a_rep=" + zstr(za) + " b_rep=" + zstr(zb);
        o.fp = fpn(za, zb, op);
        L a = make_rep<L>(za);
        R b = make_rep<R>(zb);
        mpq_class va = mkq(za) * qpow(2, LI::exponent), vb = mkq(zb) * qpow(2, RI::exponent);
        bool good = true;
        auto judge_scaled = [&](char const* name, auto const& res, mpq_class const& exact) {
            using Res = std::remove_cvref_t<decltype(res)>;
            mpq_class got = value_of(res);
            constexpr int D = declared_digits<Res>;
            if (got != exact) {
                o.fail(std::string("esi") + name + "/value-mismatch", "expected " + qstr(exact) + " got " + qstr(got));
                return false;
            }
            if (abs(rep_mpz(res)) > dmax(D)) {
                o.fail(std::string("esi") + name + "/result-outside-declared-range", "rep " + zstr(rep_mpz(res)) + " digits " + std::to_string(D));
                return false;
            }
            return true;
        };
        bool ok = guard(o, [&] {
            switch (op) {
            case 0: good = judge_scaled("+", a + b, va + vb); break;
            case 1: good = judge_scaled("-", a - b, va - vb); break;
            case 2: good = judge_scaled("*", a * b, va * vb); break;
            case 3: good = judge_scaled("neg", -a, -va); break;
            case 10:
            case 11: {
                // a op= b is a = a op b converted back to a's type: truncated toward zero at a's resolution (cases whose result leaves
                // a's declared digits are not part of the property: elastic types do not check narrowing)
                mpq_class t = (op == 10 ? mpq_class(va + vb) : mpq_class(va - vb)) / qpow(2, LI::exponent);
                mpz_class want = q_trunc(t);
                if (abs(t) > mkq(dmax(LD)) || (!declared_signed<L> && t < 0)) {  // (the exact result itself, e.g. not -2^-31 into an unsigned type)
                    o.discard("compound-result-outside-declared-range");
                    good = false;
                    break;
                }
                L x = a;
                if (op == 10)
                    x += b;
                else
                    x -= b;
                if (rep_mpz(x) != want) {
                    o.fail(std::string("esi") + opname(op) + "/value-mismatch", "expected rep " + zstr(want) + " got " + zstr(rep_mpz(x)));
                    good = false;
                }
                break;
            }
            default: {
                int ord = cmp(va, vb);
                bool e[6] = {ord == 0, ord != 0, ord < 0, ord <= 0, ord > 0, ord >= 0};
                bool g[6] = {a == b, a != b, a < b, a <= b, a > b, a >= b};
                bool gr[6] = {b == a, b != a, b > a, b >= a, b < a, b <= a};
                if (g[op - 4] != e[op - 4] || gr[op - 4] != e[op - 4]) {
                    o.fail(std::string("esicmp") + opname(op) + "/value-mismatch", std::string("expected ") + (e[op - 4] ? "true" : "false"));
                    good = false;
                }
            }
            }
        });
        if (!ok || !good) return;
        bool extreme = abs(za) == dmax(LD) || abs(zb) == dmax(RD);
        o.pass(true, extreme ? "operand-at-extreme" : opname(op));
    }
    static void run(Words& w, Outcome& o, std::string* d)
    {
        int op = int(draw_small(w, 0, n_ops - 1));
        mpz_class za = draw_declared<L>(w), zb = draw_declared<R>(w);
        unsigned m = unsigned(w.next() % 6);
        if (m == 0) za = (w.next() & 1) && declared_signed<L> ? mpz_class(-dmax(LD)) : dmax(LD);
        if (m == 1) zb = (w.next() & 1) && declared_signed<R> ? mpz_class(-dmax(RD)) : dmax(RD);
        if (m == 2) {  // b (nearly) the same value as a, expressed at b's exponent
            mpq_class t = mkq(za) * qpow(2, LI::exponent - RI::exponent);
            mpz_class z = q_floor(t) + (long(w.next() % 3) - 1);
            if (abs(z) <= dmax(RD) && (declared_signed<R> || z >= 0)) zb = z;
        }
        check(op, za, zb, o, d);
    }
    static void reg(char const* name) { add_site({std::string("C05|esi|") + name, run, 0, nullptr}); }
};
// elastic_integer combined with a built-in integer (on either side): the built-in operand is wrapped by value, so the result is the
// exact result again (an unsigned elastic_integer times a negative int is negative) and comparisons follow the values
template<class E, class B>
struct WithBuiltin {
    static constexpr int ED = declared_digits<E>;
    static constexpr int n_ops = 11;
    static char const* opname(int op)
    {
        static char const* n[] = {"+", "-", "*", "/", "%", "==", "!=", "<", "<=", ">", ">="};
        return n[op];
    }
    static void check(int op, bool builtin_left, mpz_class const& ze, B b, Outcome& o, std::string* d)
    {
        mpz_class zb = to_mpz(b);
        if (d) *d = std::string(builtin_left ? "builtin " : "elastic ") + opname(op) + (builtin_left ? " elastic" : " builtin") + " e=" + zstr(ze) + " b=" + zstr(zb);
        o.fp = fpn(ze, zb, op * 2 + (builtin_left ? 1 : 0));
        mpz_class const& zl = builtin_left ? zb : ze;
        mpz_class const& zr = builtin_left ? ze : zb;
        if ((op == 3 || op == 4) && zr == 0) return o.discard("zero-divisor");
        // elastic_integer<digits of B> has a symmetric range: the most negative built-in value is not one of its values
        if (is_signed_int_v<B> && b == int_min<B>()) return o.discard("most-negative-builtin-outside-the-elastic-range");
        // the wrapped built-in has all the digits of its type: products beyond the widest storage are ill-formed, not generated here
        E e = make_rep<E>(ze);
        bool good = true;
        std::string const side = builtin_left ? "builtin-lhs" : "builtin-rhs";
        auto arith = [&](auto const& res, mpz_class const& exact) {
            good = judge_result((side + opname(op)).c_str(), res, exact, o);
        };
        bool ok = guard(o, [&] {
            mpz_class q, r;
            if (op == 3 || op == 4) mpz_tdiv_qr(q.get_mpz_t(), r.get_mpz_t(), zl.get_mpz_t(), zr.get_mpz_t());
            auto go = [&](auto const& x, auto const& y) {
                switch (op) {
                case 0: arith(x + y, zl + zr); break;
                case 1: arith(x - y, zl - zr); break;
                case 2:
                    if constexpr (ED + int(sizeof(B)) * 8 <= 127) arith(x * y, zl * zr);
                    break;
                case 3: arith(x / y, q); break;
                case 4: arith(x % y, r); break;
                default: {
                    int ord = cmp(zl, zr);
                    bool ex[6] = {ord == 0, ord != 0, ord < 0, ord <= 0, ord > 0, ord >= 0};
                    bool g[6] = {x == y, x != y, x < y, x <= y, x > y, x >= y};
                    if (g[op - 5] != ex[op - 5]) {
                        o.fail(side + "cmp" + opname(op) + "/value-mismatch", std::string("expected ") + (ex[op - 5] ? "true" : "false"));
                        good = false;
                    }
                }
                }
            };
            if (builtin_left)
                go(b, e);
            else
                go(e, b);
        });
        if (!ok) {
            o.fclass = side + opname(op) + "/" + o.fclass;
            return;
        }
        if (!good) return;
        if (op == 2 && ED + int(sizeof(B)) * 8 > 127) return o.discard("product-exceeds-widest-storage");
        o.pass(zb < 0 || abs(ze) == dmax(ED), zb < 0 ? "negative-builtin" : opname(op));
    }
    static void run(Words& w, Outcome& o, std::string* d)
    {
        int op = int(draw_small(w, 0, n_ops - 1));
        bool left = (w.next() & 1) != 0;
        mpz_class ze = draw_declared<E>(w);
        B b = draw_int<B>(w);
        if (w.next() % 3 == 0) b = static_cast<B>(draw_small(w, -9, 9));
        check(op, left, ze, b, o, d);
    }
    static void reg(char const* name) { add_site({std::string("C05|with-builtin|") + name, run, 0, nullptr}); }
};
}  // namespace c05

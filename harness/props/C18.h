// C18 — bit and digit-counting utilities match the C++20 <bit> definitions everywhere
#pragma once
#include "../core.h"

#include <cnl/all.h>

#include <bit>

namespace c18 {
using namespace vf;

// naive reference on the value's bits (independent of <bit> and of CNL)
inline int bitlen(u128 v)
{
    int n = 0;
    while (v) {
        ++n;
        v >>= 1;
    }
    return n;
}
inline int naive_pop(u128 v)
{
    int n = 0;
    while (v) {
        n += int(v & 1);
        v >>= 1;
    }
    return n;
}
inline int naive_ctz(u128 v, int w)
{
    if (!v) return w;
    int n = 0;
    while (!(v & 1)) {
        ++n;
        v >>= 1;
    }
    return n;
}
template<class U>
inline u128 mask()
{
    return bits_v<U> == 128 ? ~u128{0} : ((u128{1} << bits_v<U>) - 1);
}

////////////////////////////////////////////////////////////////////////////////
template<class U>
struct Unsigned {
    static constexpr int W = bits_v<U>;
    static constexpr int n_fn = 14;
    static char const* fname(int f)
    {
        static char const* n[] = {"countl_zero", "countl_one", "countr_zero", "countr_one", "popcount", "ispow2", "ceil2",
                                  "floor2", "log2p1", "trailing_bits", "used_digits", "leading_bits", "countl_rb", "countr_used"};
        return n[f];
    }
    static void check(int f, U x, Outcome& o, std::string* d)
    {
        if (d) *d = std::string(fname(f)) + "(" + istr(x) + ")";
        o.fp = fpn(x, f);
        u128 v = static_cast<u128>(x), inv = (~v) & mask<U>();
        mpz_class expect, got;
        switch (f) {
        case 0: expect = W - bitlen(v); break;
        case 1: expect = W - bitlen(inv); break;
        case 2: expect = naive_ctz(v, W); break;
        case 3: expect = naive_ctz(inv, W); break;
        case 4: expect = naive_pop(v); break;
        case 5: expect = (naive_pop(v) == 1) ? 1 : 0; break;
        case 6:  // smallest power of two >= x; documented deviation ceil2(0) == 0
            if (v == 0)
                expect = 0;
            else {
                int k = bitlen(v - 1);
                if (k >= W) return o.discard("ceil2-unrepresentable");
                expect = to_mpz(u128{1} << k);
            }
            break;
        case 7: expect = v ? to_mpz(u128{1} << (bitlen(v) - 1)) : mpz_class(0); break;
        case 8: expect = bitlen(v); break;
        case 9: expect = v ? naive_ctz(v, W) : 0; break;
        case 10: expect = bitlen(v); break;
        case 11: expect = W - bitlen(v); break;
        case 12: expect = W - bitlen(v); break;
        case 13: expect = bitlen(v); break;
        }
        if constexpr (W <= 64) {  // second oracle: the standard library itself
            mpz_class s = expect;
            switch (f) {
            case 0: s = std::countl_zero(x); break;
            case 1: s = std::countl_one(x); break;
            case 2: s = std::countr_zero(x); break;
            case 3: s = std::countr_one(x); break;
            case 4: s = std::popcount(x); break;
            case 5: s = std::has_single_bit(x) ? 1 : 0; break;
            case 6:
                if (v) s = to_mpz(std::bit_ceil(x));
                break;
            case 7: s = to_mpz(std::bit_floor(x)); break;
            case 8: s = int(std::bit_width(x)); break;
            default: break;
            }
            if (s != expect) return o.fail("oracle-disagreement", "naive " + zstr(expect) + " std " + zstr(s));
        }
        bool ok = guard(o, [&] {
            switch (f) {
            case 0: got = cnl::countl_zero(x); break;
            case 1: got = cnl::countl_one(x); break;
            case 2: got = cnl::countr_zero(x); break;
            case 3: got = cnl::countr_one(x); break;
            case 4: got = cnl::popcount(x); break;
            case 5: got = cnl::ispow2(x) ? 1 : 0; break;
            case 6: got = to_mpz(cnl::ceil2(x)); break;
            case 7: got = to_mpz(cnl::floor2(x)); break;
            case 8: got = cnl::log2p1(x); break;
            case 9: got = cnl::trailing_bits(x); break;
            case 10: got = cnl::used_digits(x); break;
            case 11: got = cnl::leading_bits(x); break;
            case 12: got = cnl::countl_rb(x); break;
            case 13: got = cnl::countr_used(x); break;
            }
        });
        if (!ok) {
            o.fclass = std::string(fname(f)) + "/" + o.fclass;
            return;
        }
        if (got != expect) return o.fail(std::string(fname(f)) + "/value-mismatch", "expected " + zstr(expect) + " got " + zstr(got));
        bool special = v == 0 || inv == 0 || naive_pop(v) == 1 || naive_pop(inv) == 1;
        o.pass(special, fname(f));
    }
    static void run(Words& w, Outcome& o, std::string* d)
    {
        int f = int(draw_small(w, 0, n_fn - 1));
        check(f, draw_int<U>(w), o, d);
    }
    static constexpr std::uint64_t enum_size() { return W <= 32 ? (std::uint64_t{n_fn} << W) : 0; }
    static void run_enum(std::uint64_t idx, Outcome& o, std::string* d) { check(int(idx >> W), static_cast<U>(idx), o, d); }
    static void reg() { add_site({"C18|unsigned|" + tname<U>::get(), run, enum_size(), run_enum}); }
};

////////////////////////////////////////////////////////////////////////////////
template<class U>
struct Rot {
    static constexpr int W = bits_v<U>;
    static void check(int dir, U x, unsigned s, Outcome& o, std::string* d)
    {
        if (d) *d = std::string(dir ? "rotr(" : "rotl(") + istr(x) + ", " + std::to_string(s) + ")";
        o.fp = fpn(x, s, dir);
        u128 v = static_cast<u128>(x);
        unsigned k = s % W;
        if (dir) k = (W - k) % W;  // rotr by s == rotl by W-s
        u128 e = k == 0 ? v : (((v << k) | (v >> (W - k))) & mask<U>());
        if constexpr (W <= 64) {
            U se = dir ? std::rotr(x, int(s)) : std::rotl(x, int(s));
            if (static_cast<u128>(se) != e) return o.fail("oracle-disagreement", "naive/std differ");
        }
        U got{};
        bool ok = guard(o, [&] { got = dir ? cnl::rotr(x, s) : cnl::rotl(x, s); });
        char const* cls = (s % W == 0) ? "rot-count-multiple-of-width" : "rot";
        if (!ok) {
            o.fclass = std::string(cls) + "/" + o.fclass;
            return;
        }
        if (static_cast<u128>(got) != e) return o.fail(std::string(cls) + "/value-mismatch", "expected " + istr(static_cast<U>(e)) + " got " + istr(got));
        o.pass(s % W == 0 || v == 0 || v == mask<U>() || naive_pop(v) == 1, s % W == 0 ? "count%width==0" : (dir ? "rotr" : "rotl"));
    }
    static void run(Words& w, Outcome& o, std::string* d)
    {
        int dir = int(draw_small(w, 0, 1));
        U x = draw_int<U>(w);
        unsigned s = unsigned(draw_small(w, 0, 2 * W));
        if (w.next() % 8 == 0) s = static_cast<unsigned>(draw_int<unsigned>(w));
        check(dir, x, s, o, d);
    }
    // x exhaustive for 8/16 bits, all counts 0..2W, both directions
    static constexpr std::uint64_t enum_size() { return W <= 16 ? (std::uint64_t{2} * (2 * W + 1)) << W : 0; }
    static void run_enum(std::uint64_t idx, Outcome& o, std::string* d)
    {
        U x = static_cast<U>(idx);
        std::uint64_t r = idx >> W;
        check(int(r % 2), x, unsigned(r / 2), o, d);
    }
    static void reg() { add_site({"C18|rot|" + tname<U>::get(), run, enum_size(), run_enum}); }
};

////////////////////////////////////////////////////////////////////////////////
template<class S>
struct Signed {
    static constexpr int W = bits_v<S>;
    using U = make_unsigned_t<S>;
    static constexpr int n_fn = 6;
    static char const* fname(int f)
    {
        static char const* n[] = {"countl_rsb", "countl_rb", "countr_used", "used_digits", "leading_bits", "trailing_bits"};
        return n[f];
    }
    static void check(int f, S x, Outcome& o, std::string* d)
    {
        if (d) *d = std::string(fname(f)) + "(" + istr(x) + ")";
        o.fp = fpn(x, f);
        u128 v = static_cast<u128>(static_cast<U>(x));
        // value bits of the two's-complement form: bit length of v (v >= 0) or of -v-1 == ~v (v < 0)
        int vb = x < 0 ? bitlen((~v) & mask<U>()) : bitlen(v);
        long expect = 0, got = 0;
        switch (f) {
        case 0: expect = (W - 1) - vb; break;
        case 1: expect = (W - 1) - vb; break;
        case 2: expect = vb; break;
        case 3: expect = vb; break;
        case 4: expect = (W - 1) - vb; break;
        case 5: expect = v ? naive_ctz(v, W) : 0; break;
        }
        bool ok = guard(o, [&] {
            switch (f) {
            case 0: got = cnl::countl_rsb(x); break;
            case 1: got = cnl::countl_rb(x); break;
            case 2: got = cnl::countr_used(x); break;
            case 3: got = cnl::used_digits(x); break;
            case 4: got = cnl::leading_bits(x); break;
            case 5: got = cnl::trailing_bits(x); break;
            }
        });
        if (!ok) {
            o.fclass = std::string(fname(f)) + "/" + o.fclass;
            return;
        }
        if (got != expect) return o.fail(std::string(fname(f)) + "/value-mismatch", "expected " + std::to_string(expect) + " got " + std::to_string(got));
        o.pass(x == 0 || x == -1 || x == int_min<S>() || x == int_max<S>() || naive_pop(v) == 1, fname(f));
    }
    static void run(Words& w, Outcome& o, std::string* d)
    {
        int f = int(draw_small(w, 0, n_fn - 1));
        check(f, draw_int<S>(w), o, d);
    }
    static constexpr std::uint64_t enum_size() { return W <= 32 ? (std::uint64_t{n_fn} << W) : 0; }
    static void run_enum(std::uint64_t idx, Outcome& o, std::string* d) { check(int(idx >> W), static_cast<S>(static_cast<U>(idx)), o, d); }
    static void reg() { add_site({"C18|signed|" + tname<S>::get(), run, enum_size(), run_enum}); }
};
}  // namespace c18

// C16 — fraction arithmetic, ordering, reduction and hashing follow the rationals
#pragma once
#include "../core.h"

#include <cnl/all.h>

#include <numeric>

namespace c16 {
using namespace vf;

inline int sgn(i128 v) { return v < 0 ? -1 : v > 0 ? 1
                                                   : 0; }
// order of a/b versus c/d (b, d != 0); |components| < 2^63 so cross products fit i128
inline int cmp_frac(i128 a, i128 b, i128 c, i128 d)
{
    if (b < 0) {
        a = -a;
        b = -b;
    }
    if (d < 0) {
        c = -c;
        d = -d;
    }
    i128 l = a * d, r = c * b;
    return l < r ? -1 : l > r ? 1
                              : 0;
}

inline u128 ngcd(i128 a, i128 b)
{
    u128 x = a < 0 ? u128(-a) : u128(a), y = b < 0 ? u128(-b) : u128(b);
    while (y) {
        u128 t = x % y;
        x = y;
        y = t;
    }
    return x;
}

template<class T>
T draw_comp(Words& w, bool nonzero)
{
    T v = draw_int<T>(w);
    if (nonzero && v == 0) v = T{1};
    return v;
}

////////////////////////////////////////////////////////////////////////////////
// comparisons (+ equal fractions hash equal)
template<class T1, class T2>
struct Cmp {
    using P = decltype(std::declval<T1>() * std::declval<T2>());
    static void check(T1 a, T1 b, T2 c, T2 d, Outcome& o, std::string* desc)
    {
        if (desc) *desc = istr(a) + "/" + istr(b) + " vs " + istr(c) + "/" + istr(d);
        o.fp = fpn(a, b, c, d);
        if (b == 0 || d == 0) return o.discard("zero-denominator");
        if (!fits<P>(to_mpz(a) * to_mpz(d)) || !fits<P>(to_mpz(c) * to_mpz(b))) return o.discard("cross-product-does-not-fit");
        int const ord = cmp_frac(a, b, c, d);
        bool const mixed_den = (b < 0) != (d < 0);
        bool got[6] = {};
        std::size_t h1 = 0, h2 = 0;
        bool hashed = false;
        bool ok = guard(o, [&] {
            cnl::fraction<T1> x(a, b);
            cnl::fraction<T2> y(c, d);
            got[0] = x == y;
            got[1] = x != y;
            got[2] = x < y;
            got[3] = x <= y;
            got[4] = x > y;
            got[5] = x >= y;
        });
        if (!ok) {
            o.fclass = "cmp/" + o.fclass;
            return;
        }
        // cause region: a most negative 32/64-bit component reaches std::gcd, whose precondition (|m|, |n| representable) it violates
        std::string cause = "";
        if constexpr (std::is_same_v<T1, T2>) {
            if (bits_v<T1> >= 32 && (a == int_min<T1>() || b == int_min<T1>() || c == int_min<T1>() || d == int_min<T1>())) cause = "most-negative-component/";
            // the canonical form (lowest terms, positive denominator) must be representable in the component type
            mpq_class const vq = mkq(to_mpz(a), to_mpz(b));
            if (ord == 0 && fits<T1>(vq.get_num()) && fits<T1>(vq.get_den())) {
                hashed = true;
                if (!cause.empty()) o.region = "hash/" + cause;
                Outcome o2;
                bool ok2 = guard(o2, [&] {
                    h1 = std::hash<cnl::fraction<T1>>{}(cnl::fraction<T1>(a, b));
                    h2 = std::hash<cnl::fraction<T1>>{}(cnl::fraction<T1>(c, d));
                });
                if (!ok2) return o.fail("hash/" + cause + o2.fclass, o2.msg);
            }
        }
        bool expect[6] = {ord == 0, ord != 0, ord < 0, ord <= 0, ord > 0, ord >= 0};
        static char const* names[6] = {"==", "!=", "<", "<=", ">", ">="};
        for (int i = 0; i < 6; ++i)
            if (got[i] != expect[i]) {
                std::string cls = i < 2 ? "equality" : (mixed_den ? "order/one-negative-denominator" : "order");
                return o.fail(cls + "/value-mismatch",
                              std::string("operator") + names[i] + " expected " + (expect[i] ? "true" : "false") + " got " + (got[i] ? "true" : "false"));
            }
        if (hashed && h1 != h2) return o.fail(cause + "hash-of-equal-fractions-differs", "hashes " + std::to_string(h1) + " vs " + std::to_string(h2));
        o.pass(b < 0 || d < 0 || ngcd(a, b) > 1,
               ord == 0 ? (hashed ? "equal+hash" : "equal") : mixed_den ? "one-negative-denominator"
                                                           : (b < 0)    ? "both-negative-denominators"
                                                                        : "positive-denominators");
    }
    static void run(Words& w, Outcome& o, std::string* desc)
    {
        unsigned m = unsigned(w.next() % 6);
        unsigned full = unsigned(w.next() % 4);  // 1 in 4 cases uses full-width components (cross products rarely fit)
        auto half1 = [&](bool nz) -> T1 {
            T1 v = draw_comp<T1>(w, false);
            if (full != 0) v = static_cast<T1>(v >> (bits_v<T1> / 2 + int(w.next() % 3) - 1));
            return (nz && v == 0) ? T1{1} : v;
        };
        auto half2 = [&](bool nz) -> T2 {
            T2 v = draw_comp<T2>(w, false);
            if (full != 0) v = static_cast<T2>(v >> (bits_v<T2> / 2 + int(w.next() % 3) - 1));
            return (nz && v == 0) ? T2{-1} : v;
        };
        T1 a = half1(false), b = half1(true);
        T2 c{}, d{};
        if (m <= 2) {
            c = half2(false);
            d = half2(true);
        } else if (m <= 4) {  // proportional: c/d == a/b (possibly with a sign flip of both), small factor
            long k = draw_small(w, 1, 5) * (w.next() % 2 ? -1 : 1);
            mpz_class zc = to_mpz(a) * k, zd = to_mpz(b) * k;
            if (m == 4) {  // reduce first so that the multiple fits more often
                mpz_class g = gcd(to_mpz(a), to_mpz(b));
                if (g != 0) {
                    zc = to_mpz(a) / g * k;
                    zd = to_mpz(b) / g * k;
                }
            }
            if (fits<T2>(zc) && fits<T2>(zd) && zd != 0) {
                c = from_mpz<T2>(zc);
                d = from_mpz<T2>(zd);
            } else {
                c = static_cast<T2>(draw_small(w, -3, 3));
                d = static_cast<T2>(draw_small(w, 1, 4));
            }
        } else {  // neighbours: c/d differs from a/b by one unit in the numerator
            mpz_class zc = to_mpz(a) + (long(w.next() % 3) - 1);
            if (fits<T2>(zc) && fits<T2>(to_mpz(b))) {
                c = from_mpz<T2>(zc);
                d = from_mpz<T2>(to_mpz(b));
                if (w.next() % 2 && fits<T2>(-to_mpz(c)) && fits<T2>(-to_mpz(d))) {
                    c = static_cast<T2>(-c);
                    d = static_cast<T2>(-d);
                }
            } else {
                c = draw_comp<T2>(w, false);
                d = draw_comp<T2>(w, true);
            }
        }
        check(a, b, c, d, o, desc);
    }
    // all 2^32 pairs of 8-bit fractions (thorough); a 2^16 sub-plane with components in [-8,7] is site Cmp4
    static constexpr std::uint64_t enum_size() { return (bits_v<T1> == 8 && bits_v<T2> == 8) ? (std::uint64_t{1} << 32) : 0; }
    static void run_enum(std::uint64_t idx, Outcome& o, std::string* desc)
    {
        check(static_cast<T1>(static_cast<std::int8_t>(idx)), static_cast<T1>(static_cast<std::int8_t>(idx >> 8)),
              static_cast<T2>(static_cast<std::int8_t>(idx >> 16)), static_cast<T2>(static_cast<std::int8_t>(idx >> 24)), o, desc);
    }
    static void reg() { add_site({"C16|cmp|" + tname<T1>::get() + "|" + tname<T2>::get(), run, enum_size(), run_enum}); }
};

// exhaustive small plane: all four components in [-8,7]
template<class T1, class T2>
struct Cmp4 {
    static void run_enum(std::uint64_t idx, Outcome& o, std::string* desc)
    {
        auto c = [&](int k) { return int((idx >> (4 * k)) & 15) - 8; };
        Cmp<T1, T2>::check(static_cast<T1>(c(0)), static_cast<T1>(c(1)), static_cast<T2>(c(2)), static_cast<T2>(c(3)), o, desc);
    }
    static void run(Words& w, Outcome& o, std::string* desc) { run_enum(w.next() & 0xffff, o, desc); }
    static void reg() { add_site({"C16|cmp4|" + tname<T1>::get() + "|" + tname<T2>::get(), run, 1u << 16, run_enum}); }
};

////////////////////////////////////////////////////////////////////////////////
// arithmetic: + - * / unary - unary +
template<class T>
struct Arith {
    using P = decltype(std::declval<T>() * std::declval<T>());
    static char const* opname(int op)
    {
        static char const* n[] = {"+", "-", "*", "/", "neg", "pos"};
        return n[op];
    }
    static void check(int op, T a, T b, T c, T d, Outcome& o, std::string* desc)
    {
        if (desc) *desc = std::string(opname(op)) + " " + istr(a) + "/" + istr(b) + " , " + istr(c) + "/" + istr(d);
        o.fp = fpn(a, b, c, d, op);
        if (b == 0 || d == 0) return o.discard("zero-denominator");
        mpz_class za = to_mpz(a), zb = to_mpz(b), zc = to_mpz(c), zd = to_mpz(d);
        mpq_class x = mkq(za, zb), y = mkq(zc, zd), expect;
        // "operands small enough that the cross products fit": every product/sum the definition needs fits P
        bool fit = true;
        switch (op) {
        case 0: fit = fits<P>(za * zd) && fits<P>(zc * zb) && fits<P>(za * zd + zc * zb) && fits<P>(zb * zd); expect = x + y; break;
        case 1: fit = fits<P>(za * zd) && fits<P>(zc * zb) && fits<P>(za * zd - zc * zb) && fits<P>(zb * zd); expect = x - y; break;
        case 2: fit = fits<P>(za * zc) && fits<P>(zb * zd); expect = x * y; break;
        case 3:
            if (c == 0) return o.discard("division-by-zero-fraction");
            fit = fits<P>(za * zd) && fits<P>(zb * zc);
            expect = x / y;
            break;
        case 4: fit = fits<P>(-za); expect = -x; break;
        default: expect = x; break;
        }
        if (!fit) return o.discard("cross-product-does-not-fit");
        mpz_class gn, gd;
        bool ok = guard(o, [&] {
            cnl::fraction<T> fx(a, b), fy(c, d);
            auto take = [&](auto const& r) {
                gn = to_mpz(r.numerator);
                gd = to_mpz(r.denominator);
            };
            switch (op) {
            case 0: take(fx + fy); break;
            case 1: take(fx - fy); break;
            case 2: take(fx * fy); break;
            case 3: take(fx / fy); break;
            case 4: take(-fx); break;
            default: take(+fx); break;
            }
        });
        if (!ok) {
            o.fclass = std::string("arith") + opname(op) + "/" + o.fclass;
            return;
        }
        if (gd == 0) return o.fail(std::string("arith") + opname(op) + "/zero-denominator", "result " + zstr(gn) + "/0");
        if (mkq(gn, gd) != expect) return o.fail(std::string("arith") + opname(op) + "/value-mismatch", "expected " + qstr(expect) + " got " + zstr(gn) + "/" + zstr(gd));
        o.pass(b < 0 || d < 0 || gcd(za, zb) > 1, opname(op));
    }
    static void run(Words& w, Outcome& o, std::string* desc)
    {
        int op = int(draw_small(w, 0, 5));
        unsigned m = unsigned(w.next() % 3);
        T a, b, c, d;
        if (m == 0) {
            a = draw_comp<T>(w, false), b = draw_comp<T>(w, true), c = draw_comp<T>(w, false), d = draw_comp<T>(w, true);
        } else {
            // components of about half the width, so that the cross products usually fit
            auto half = [&]() -> T {
                T v = draw_int<T>(w);
                int sh = (bits_v<T> / 2) + int(w.next() % 3) - 1;
                return static_cast<T>(v >> sh);
            };
            a = half(), b = half(), c = half(), d = half();
            if (b == 0) b = 1;
            if (d == 0) d = -1;
        }
        check(op, a, b, c, d, o, desc);
    }
    static void reg() { add_site({"C16|arith|" + tname<T>::get(), run, 0, nullptr}); }
};

////////////////////////////////////////////////////////////////////////////////
// single fraction: reduce, canonical, hash of canonical twin, conversion to floating point
template<class T>
struct Single {
    static void check(T n, T d, Outcome& o, std::string* desc)
    {
        if (desc) *desc = istr(n) + "/" + istr(d);
        o.fp = fpn(n, d);
        if (d == 0) return o.discard("zero-denominator");
        mpz_class zn = to_mpz(n), zd = to_mpz(d);
        mpq_class v = mkq(zn, zd);
        // conversion to floating point == static_cast<F>(n) / static_cast<F>(d)
        float ef = static_cast<float>(n) / static_cast<float>(d);
        double ed = static_cast<double>(n) / static_cast<double>(d);
        long double el = static_cast<long double>(n) / static_cast<long double>(d);
        float gf = 0;
        double gdbl = 0;
        long double gl = 0;
        bool gcd_ok = true;  // (most negative components included: the quantifier is "all numerators and denominators")
        // cause region: a most negative 32/64-bit component reaches std::gcd, whose precondition (|m|, |n| representable) it violates
        std::string const cause = (bits_v<T> >= 32 && (n == int_min<T>() || d == int_min<T>())) ? "most-negative-component/" : "";
        o.region = cause.empty() ? "" : "single/" + cause;
        mpz_class rn, rd, cn, cd;
        bool canon_representable = fits<T>(v.get_num()) && fits<T>(v.get_den());
        bool ok = guard(o, [&] {
            cnl::fraction<T> f(n, d);
            gf = static_cast<float>(f);
            gdbl = static_cast<double>(f);
            gl = static_cast<long double>(f);
            if (gcd_ok) {
                auto r = cnl::reduce(f);
                rn = to_mpz(r.numerator), rd = to_mpz(r.denominator);
                if (canon_representable) {
                    auto c = cnl::canonical(f);
                    cn = to_mpz(c.numerator), cd = to_mpz(c.denominator);
                }
            }
        });
        if (!ok) {
            o.fclass = "single/" + cause + o.fclass;
            return;
        }
        if (std::memcmp(&gf, &ef, sizeof gf) || std::memcmp(&gdbl, &ed, sizeof gdbl) || gl != el)
            return o.fail("to-floating/value-mismatch", "double: expected " + fstr(ed) + " got " + fstr(gdbl));
        if (gcd_ok) {
            if (rd == 0 || mkq(rn, rd) != v) return o.fail(cause + "reduce/value-changed", "got " + zstr(rn) + "/" + zstr(rd));
            if (gcd(rn, rd) != 1) return o.fail(cause + "reduce/not-lowest-terms", "got " + zstr(rn) + "/" + zstr(rd));
            if (canon_representable) {
                if (cd == 0 || mkq(cn, cd) != v) return o.fail(cause + "canonical/value-changed", "got " + zstr(cn) + "/" + zstr(cd));
                if (gcd(cn, cd) != 1) return o.fail(cause + "canonical/not-lowest-terms", "got " + zstr(cn) + "/" + zstr(cd));
                if (cd <= 0) return o.fail(cause + "canonical/denominator-not-positive", "got " + zstr(cn) + "/" + zstr(cd));
            }
        }
        o.pass(d < 0 || gcd(zn, zd) > 1, !gcd_ok ? "float-only" : d < 0 ? "negative-denominator"
                                                         : gcd(zn, zd) > 1 ? "reducible"
                                                                           : "lowest-terms");
    }
    static void run(Words& w, Outcome& o, std::string* desc)
    {
        T n = draw_comp<T>(w, false), d = draw_comp<T>(w, true);
        if (w.next() % 2) {  // make it reducible
            long k = draw_small(w, 2, 12);
            mpz_class zn = to_mpz(n) * k, zd = to_mpz(d) * k;
            if (fits<T>(zn) && fits<T>(zd)) n = from_mpz<T>(zn), d = from_mpz<T>(zd);
        }
        check(n, d, o, desc);
    }
    static constexpr std::uint64_t enum_size() { return bits_v<T> <= 16 ? (std::uint64_t{1} << (2 * bits_v<T>)) : 0; }
    static void run_enum(std::uint64_t idx, Outcome& o, std::string* desc)
    {
        using U = make_unsigned_t<T>;
        check(static_cast<T>(static_cast<U>(idx)), static_cast<T>(static_cast<U>(idx >> bits_v<T>)), o, desc);
    }
    static void reg() { add_site({"C16|single|" + tname<T>::get(), run, enum_size(), run_enum}); }
};
////////////////////////////////////////////////////////////////////////////////
// comparisons of fractions whose four components have their own types (fraction<N1, D1> vs fraction<N2, D2>, unsigned ones
// included): cnl::make_fraction(1LL, -2) < cnl::make_fraction(1LL, 3u). Precondition as stated in the property: both cross
// products fit, here: fit the type in which the implementation's natural expression n1 * d2 <=> n2 * d1 compares them.
template<class N1, class D1, class N2, class D2>
struct CmpND {
    using P1 = decltype(std::declval<N1>() * std::declval<D2>());
    using P2 = decltype(std::declval<N2>() * std::declval<D1>());
    using C = std::common_type_t<P1, P2>;
    static void check(N1 a, D1 b, N2 c, D2 d, Outcome& o, std::string* desc)
    {
        if (desc) *desc = istr(a) + "/" + istr(b) + " vs " + istr(c) + "/" + istr(d);
        o.fp = fpn(a, b, c, d);
        if (b == 0 || d == 0) return o.discard("zero-denominator");
        mpz_class l = to_mpz(a) * to_mpz(d), r = to_mpz(c) * to_mpz(b);
        if (!fits<P1>(l) || !fits<P2>(r) || !fits<C>(l) || !fits<C>(r)) return o.discard("cross-product-does-not-fit");
        int ord = cmp(mkq(to_mpz(a), to_mpz(b)), mkq(to_mpz(c), to_mpz(d)));
        bool const mixed_den = (to_mpz(b) < 0) != (to_mpz(d) < 0);
        bool got[6] = {}, rev[6] = {};
        bool ok = guard(o, [&] {
            cnl::fraction<N1, D1> x(a, b);
            cnl::fraction<N2, D2> y(c, d);
            got[0] = x == y, got[1] = x != y, got[2] = x < y, got[3] = x <= y, got[4] = x > y, got[5] = x >= y;
            rev[0] = y == x, rev[1] = y != x, rev[2] = y > x, rev[3] = y >= x, rev[4] = y < x, rev[5] = y <= x;
        });
        if (!ok) {
            o.fclass = "cmpnd/" + o.fclass;
            return;
        }
        bool expect[6] = {ord == 0, ord != 0, ord < 0, ord <= 0, ord > 0, ord >= 0};
        static char const* names[6] = {"==", "!=", "<", "<=", ">", ">="};
        for (int i = 0; i < 6; ++i)
            if (got[i] != expect[i] || rev[i] != expect[i]) {
                std::string cls = i < 2 ? "equality" : (mixed_den ? "order/one-negative-denominator" : "order");
                return o.fail("cmpnd/" + cls + "/value-mismatch", std::string("operator") + names[i] + (got[i] != expect[i] ? "" : " (operands swapped)") + " expected " + (expect[i] ? "true" : "false"));
            }
        // fractions of one type that compare equal hash equal (when the canonical form is representable in the component types)
        bool hashed = false;
        if constexpr (std::is_same_v<N1, N2> && std::is_same_v<D1, D2>) {
            mpq_class const vq = mkq(to_mpz(a), to_mpz(b));
            bool const mn = (is_signed_int_v<N1> && bits_v<N1> >= 32 && (a == int_min<N1>() || c == int_min<N1>()))
                         || (is_signed_int_v<D1> && bits_v<D1> >= 32 && (b == int_min<D1>() || d == int_min<D1>()));
            if (ord == 0 && fits<N1>(vq.get_num()) && fits<D1>(vq.get_den()) && !mn) {
                std::size_t h1 = 0, h2 = 0;
                Outcome o2;
                bool ok2 = guard(o2, [&] {
                    h1 = std::hash<cnl::fraction<N1, D1>>{}(cnl::fraction<N1, D1>(a, b));
                    h2 = std::hash<cnl::fraction<N2, D2>>{}(cnl::fraction<N2, D2>(c, d));
                });
                if (!ok2) return o.fail("cmpnd/hash/" + o2.fclass, o2.msg);
                if (h1 != h2) return o.fail("cmpnd/hash-of-equal-fractions-differs", "hashes " + std::to_string(h1) + " vs " + std::to_string(h2));
                hashed = true;
            }
        }
        o.pass(to_mpz(b) < 0 || to_mpz(d) < 0 || ord == 0, ord == 0 ? (hashed ? "equal+hash" : "equal") : mixed_den ? "one-negative-denominator"
                                                                    : (to_mpz(b) < 0) ? "both-negative-denominators"
                                                                                      : "positive-denominators");
    }
    template<class T>
    static T part(Words& w, bool nonzero, int shrink)
    {
        T v = draw_int<T>(w);
        if (shrink) {
            int sh = bits_v<T> / 2 + int(w.next() % 3) - 1;
            v = static_cast<T>(v >> (shrink == 1 ? sh : bits_v<T> - 4));
        }
        if (nonzero && v == 0) v = static_cast<T>(is_signed_int_v<T> && (w.next() & 1) ? -1 : 1);
        return v;
    }
    static void run(Words& w, Outcome& o, std::string* desc)
    {
        unsigned m = unsigned(w.next() % 6);
        int shrink = m == 0 ? 0 : m <= 3 ? 1 : 2;
        N1 a = part<N1>(w, false, shrink);
        D1 b = part<D1>(w, true, shrink);
        N2 c = part<N2>(w, false, shrink);
        D2 d = part<D2>(w, true, shrink);
        if (m == 3 || m == 5) {  // proportional or neighbouring: c/d == a/b times k/k, numerator moved by -1, 0 or +1
            long k = draw_small(w, 1, 4) * ((w.next() & 1) ? -1 : 1);
            mpz_class zc = to_mpz(a) * k + (long(w.next() % 3) - 1), zd = to_mpz(b) * k;
            if (fits<N2>(zc) && fits<D2>(zd) && zd != 0) c = from_mpz<N2>(zc), d = from_mpz<D2>(zd);
        }
        check(a, b, c, d, o, desc);
    }
    // all four components 8-bit: every pair with components in the 16 values around zero (and around 128 for unsigned ones)
    static constexpr std::uint64_t enum_size() { return (bits_v<N1> == 8 && bits_v<D1> == 8 && bits_v<N2> == 8 && bits_v<D2> == 8) ? (std::uint64_t{1} << 16) : 0; }
    static void run_enum(std::uint64_t idx, Outcome& o, std::string* desc)
    {
        auto c = [&](int k) { return int((idx >> (4 * k)) & 15) - 8; };
        check(static_cast<N1>(c(0)), static_cast<D1>(c(1)), static_cast<N2>(c(2)), static_cast<D2>(c(3)), o, desc);
    }
    static void reg() { add_site({"C16|cmpnd|" + tname<N1>::get() + "_" + tname<D1>::get() + "|" + tname<N2>::get() + "_" + tname<D2>::get(), run, enum_size(), run_enum}); }
};
}  // namespace c16

// Property-agnostic engine (DESIGN 2.1): rapidcheck search, exhaustive enumeration and replay over the
// site table linked into the binary. Never includes CNL.
//
//   engine list
//   engine rc     --out F --seed S --cases N [--known TSV] [--only REGEX] [--words K]
//   engine enum   --out F [--known TSV] [--only REGEX] [--stripe k/n] [--max-size M]
//   (rc and enum also take --shard k/n: every n-th selected site)
//   engine replay FILE.json [--known TSV]
//
// exit codes: 0 nothing unlisted failed, 1 unlisted failure(s) (details in --out), 2 usage/internal error
#include "core.h"

#include <rapidcheck.h>

#include <rapidcheck/detail/TestListenerAdapter.h>

#include <fstream>
#include <iostream>
#include <regex>
#include <set>
#include <sstream>
#include <unordered_set>

namespace vf {
GuardState& gs()
{
    static GuardState g;
    return g;
}
}  // namespace vf

using namespace vf;

////////////////////////////////////////////////////////////////////////////////
// hooks and signal handlers

extern "C" void johnmcfarlane_cnl_verif_abort_hook(char const* message)
{
    GuardState& g = gs();
    if (!g.armed) return;  // not inside a guard: let CNL abort for real
    std::strncpy(g.abort_msg, message ? message : "", sizeof g.abort_msg - 1);
    g.abort_msg[sizeof g.abort_msg - 1] = 0;
    g.what = "abort";
    siglongjmp(g.jb, 1);
}
extern "C" void johnmcfarlane_cnl_verif_tick_hook(int)
{
    GuardState& g = gs();
    if (!g.armed) return;
    if (++g.ticks > g.tick_limit) {
        g.what = "no-termination";
        siglongjmp(g.jb, 1);
    }
}
static void on_signal(int sig)
{
    GuardState& g = gs();
    if (!g.armed) {
        signal(sig, SIG_DFL);
        raise(sig);
        return;
    }
    g.what = sig == SIGILL ? "ub-trap" : sig == SIGFPE ? "sigfpe"
                                 : sig == SIGSEGV      ? "sigsegv"
                                 : sig == SIGBUS       ? "sigbus"
                                 : sig == SIGABRT      ? "sigabrt"
                                                       : "signal";
    siglongjmp(g.jb, 1);
}
static void install_handlers()
{
    static char altstack[1 << 16];
    stack_t ss{};
    ss.ss_sp = altstack;
    ss.ss_size = sizeof altstack;
    sigaltstack(&ss, nullptr);
    struct sigaction sa {};
    sa.sa_handler = on_signal;
    sa.sa_flags = SA_NODEFER | SA_ONSTACK;
    sigemptyset(&sa.sa_mask);
    for (int s : {SIGILL, SIGFPE, SIGSEGV, SIGBUS, SIGABRT}) sigaction(s, &sa, nullptr);
}

////////////////////////////////////////////////////////////////////////////////
// JSON output (hand-written, tiny)

static std::string jesc(std::string const& s)
{
    std::string o;
    for (unsigned char c : s) {
        switch (c) {
        case '"': o += "\\\""; break;
        case '\\': o += "\\\\"; break;
        case '\n': o += "\\n"; break;
        case '\t': o += "\\t"; break;
        case '\r': o += "\\r"; break;
        default:
            if (c < 0x20 || c >= 0x7f) {
                char b[8];
                std::snprintf(b, sizeof b, "\\u%04x", c);
                o += b;
            } else
                o += static_cast<char>(c);
        }
    }
    return o;
}
static std::string jwords(std::vector<std::uint64_t> const& w)
{
    std::string s = "[";
    for (std::size_t i = 0; i < w.size(); ++i) {
        if (i) s += ",";
        s += "\"" + std::to_string(w[i]) + "\"";  // strings: 64-bit values do not survive JSON doubles
    }
    return s + "]";
}

////////////////////////////////////////////////////////////////////////////////
// known findings (pre-digested by the driver): id \t site-regex \t class-regex

struct Known {
    std::string id;
    std::regex site, cls;
};
static std::vector<Known> g_known;
static void load_known(std::string const& path)
{
    std::ifstream f(path);
    std::string line;
    while (std::getline(f, line)) {
        if (line.empty() || line[0] == '#') continue;
        auto a = line.find('\t');
        auto b = line.find('\t', a + 1);
        if (a == std::string::npos || b == std::string::npos) continue;
        g_known.push_back({line.substr(0, a), std::regex(line.substr(a + 1, b - a - 1)), std::regex(line.substr(b + 1))});
    }
}
static Known const* match_known(std::string const& site, std::string const& cls)
{
    for (auto const& k : g_known)
        if (std::regex_match(site, k.site) && std::regex_match(cls, k.cls)) return &k;
    return nullptr;
}

////////////////////////////////////////////////////////////////////////////////
// statistics

struct Failure {
    std::vector<std::uint64_t> words;
    std::uint64_t enum_idx = 0;
    bool is_enum = false, from_corpus = false;
    std::string cls, msg, desc;
};
struct SiteStats {
    std::uint64_t cases = 0, pass = 0, discard = 0, nontrivial = 0, distinct_nontrivial = 0, fails = 0;
    std::map<std::string, std::uint64_t> labels;
    std::map<std::string, std::uint64_t> failclasses;  // enum mode: every unlisted failure counted by class
    std::map<std::string, std::pair<std::uint64_t, std::uint64_t>> regions;  // oracle-side cause region -> (passes, failures) inside it
    std::map<std::string, std::uint64_t> excluded;  // known-finding id -> hits
    std::map<std::string, std::string> excluded_example;  // id -> first described case
    std::map<std::string, std::map<std::string, std::uint64_t>> excluded_classes;  // id -> failure classes seen under it
    std::vector<std::string> samples;
    std::vector<Failure> failures;  // unlisted, at most one per class
    bool exhaustive = false;
};
static std::unordered_set<std::uint64_t> g_seen;

static void account_region(SiteStats& st, Outcome const& o)
{
    if (o.region.empty() || o.kind == Outcome::DISCARD) return;
    auto& r = st.regions[o.region];
    ++(o.kind == Outcome::PASS ? r.first : r.second);
}

static void account(std::size_t si, SiteStats& st, Outcome const& o, bool enumerating)
{
    account_region(st, o);
    ++st.cases;
    if (o.kind == Outcome::DISCARD) {
        ++st.discard;
        ++st.labels[std::string("discard:") + o.label];
        return;
    }
    if (o.kind == Outcome::PASS) {
        ++st.pass;
        ++st.labels[o.label];
        if (o.nontrivial) {
            ++st.nontrivial;
            if (enumerating)
                ++st.distinct_nontrivial;
            else if (g_seen.insert(mix(o.fp, si)).second)
                ++st.distinct_nontrivial;
        }
    }
}

static void write_result(std::string const& path, std::string const& mode, std::vector<SiteStats> const& stats,
                         std::vector<std::size_t> const& which, std::uint64_t seed)
{
    std::ostringstream o;
    o << "{\"mode\":\"" << mode << "\",\"seed\":" << seed << ",\"sites\":[";
    bool first = true;
    for (std::size_t si : which) {
        SiteStats const& s = stats[si];
        if (!first) o << ",";
        first = false;
        o << "\n{\"site\":\"" << jesc(registry()[si].name) << "\",\"cases\":" << s.cases << ",\"pass\":" << s.pass
          << ",\"discard\":" << s.discard << ",\"nontrivial\":" << s.nontrivial
          << ",\"distinct_nontrivial\":" << s.distinct_nontrivial << ",\"exhaustive\":" << (s.exhaustive ? "true" : "false")
          << ",\"labels\":{";
        bool f2 = true;
        for (auto const& kv : s.labels) {
            if (!f2) o << ",";
            f2 = false;
            o << "\"" << jesc(kv.first) << "\":" << kv.second;
        }
        o << "},\"failclasses\":{";
        f2 = true;
        for (auto const& kv : s.failclasses) {
            if (!f2) o << ",";
            f2 = false;
            o << "\"" << jesc(kv.first) << "\":" << kv.second;
        }
        o << "},\"regions\":{";
        f2 = true;
        for (auto const& kv : s.regions) {
            if (!f2) o << ",";
            f2 = false;
            o << "\"" << jesc(kv.first) << "\":[" << kv.second.first << "," << kv.second.second << "]";
        }
        o << "},\"excluded\":{";
        f2 = true;
        for (auto const& kv : s.excluded) {
            if (!f2) o << ",";
            f2 = false;
            auto ex = s.excluded_example.find(kv.first);
            o << "\"" << jesc(kv.first) << "\":{\"hits\":" << kv.second << ",\"example\":\""
              << jesc(ex == s.excluded_example.end() ? "" : ex->second) << "\",\"classes\":{";
            auto ec = s.excluded_classes.find(kv.first);
            bool f3 = true;
            if (ec != s.excluded_classes.end())
                for (auto const& c : ec->second) {
                    o << (f3 ? "" : ",") << "\"" << jesc(c.first) << "\":" << c.second;
                    f3 = false;
                }
            o << "}}";
        }
        o << "},\"samples\":[";
        for (std::size_t i = 0; i < s.samples.size(); ++i) o << (i ? "," : "") << "\"" << jesc(s.samples[i]) << "\"";
        o << "],\"failures\":[";
        for (std::size_t i = 0; i < s.failures.size(); ++i) {
            Failure const& f = s.failures[i];
            o << (i ? "," : "") << "{\"class\":\"" << jesc(f.cls) << "\",\"msg\":\"" << jesc(f.msg) << "\",\"desc\":\""
              << jesc(f.desc) << "\",";
            if (f.is_enum)
                o << "\"enum_idx\":\"" << f.enum_idx << "\"";
            else
                o << "\"words\":" << jwords(f.words);
            if (f.from_corpus) o << ",\"corpus\":\"1\"";
            o << "}";
        }
        o << "]}";
    }
    o << "\n]}\n";
    std::ofstream f(path);
    f << o.str();
}

////////////////////////////////////////////////////////////////////////////////

static std::string arg(std::vector<std::string> const& a, std::string const& k, std::string const& def = "")
{
    for (std::size_t i = 0; i + 1 < a.size(); ++i)
        if (a[i] == k) return a[i + 1];
    return def;
}

struct Silent : rc::detail::TestListenerAdapter {
};

static std::string describe_words(Site const& site, std::vector<std::uint64_t> const& words, Outcome* out = nullptr)
{
    Outcome o;
    Words w{words.data(), words.size(), 0};
    std::string d;
    site.run(w, o, &d);
    if (out) *out = o;
    return d;
}

// minimal JSON field extraction for replay files written by the driver
static std::string jfield(std::string const& s, std::string const& key)
{
    auto p = s.find("\"" + key + "\"");
    if (p == std::string::npos) return "";
    p = s.find(':', p);
    if (p == std::string::npos) return "";
    ++p;
    while (p < s.size() && (s[p] == ' ')) ++p;
    if (s[p] == '"') {
        std::string o;
        for (++p; p < s.size() && s[p] != '"'; ++p) {
            if (s[p] == '\\' && p + 1 < s.size()) {
                ++p;
                o += s[p] == 'n' ? '\n' : s[p];
            } else
                o += s[p];
        }
        return o;
    }
    if (s[p] == '[') {
        auto e = s.find(']', p);
        return s.substr(p, e - p + 1);
    }
    auto e = s.find_first_of(",}", p);
    return s.substr(p, e - p);
}

int main(int argc, char** argv)
{
    setvbuf(stdout, nullptr, _IONBF, 0);
    std::vector<std::string> a(argv + 1, argv + argc);
    if (a.empty()) {
        std::fprintf(stderr, "usage: engine list|rc|enum|replay ...\n");
        return 2;
    }
    std::string mode = a[0];
    auto& sites = registry();
    if (mode == "list") {
        for (auto const& s : sites) std::printf("%s\t%llu\n", s.name.c_str(), (unsigned long long)s.enum_size);
        return 0;
    }
    install_handlers();
    if (!arg(a, "--known").empty()) load_known(arg(a, "--known"));
    if (!arg(a, "--tick-limit").empty()) gs().tick_limit = std::stol(arg(a, "--tick-limit"));

    if (mode == "replay") {
        if (a.size() < 2) return 2;
        std::ifstream f(a[1]);
        std::stringstream ss;
        ss << f.rdbuf();
        std::string js = ss.str();
        std::string sname = jfield(js, "site");
        Site const* site = nullptr;
        for (auto const& s : sites)
            if (s.name == sname) site = &s;
        if (!site) {
            std::printf("REPLAY site-not-found %s\n", sname.c_str());
            return 3;
        }
        Outcome o;
        std::string d;
        std::string eidx = jfield(js, "enum_idx");
        if (!eidx.empty()) {
            site->run_enum(std::stoull(eidx), o, &d);
        } else {
            std::string ws = jfield(js, "words");
            std::vector<std::uint64_t> words;
            std::string cur;
            for (char c : ws) {
                if (c >= '0' && c <= '9')
                    cur += c;
                else if (!cur.empty()) {
                    words.push_back(std::stoull(cur));
                    cur.clear();
                }
            }
            Words w{words.data(), words.size(), 0};
            site->run(w, o, &d);
        }
        char const* k = o.kind == Outcome::PASS ? "PASS" : o.kind == Outcome::DISCARD ? "DISCARD"
                                                                                       : "FAIL";
        std::printf("REPLAY %s site=%s\n  case: %s\n", k, sname.c_str(), d.c_str());
        if (o.kind == Outcome::FAIL) {
            // an input from the in-region corpus satisfied the property on the reference tree: any failure counts, listed or not
            Known const* kn = jfield(js, "corpus").empty() ? match_known(sname, o.fclass) : nullptr;
            std::printf("  class: %s\n  %s\n", o.fclass.c_str(), o.msg.c_str());
            if (kn) {
                std::printf("  known-finding: %s\n", kn->id.c_str());
                return 4;
            }
            return 1;
        }
        if (o.kind == Outcome::DISCARD) std::printf("  discarded: %s\n", o.label);
        return 0;
    }

    std::string out = arg(a, "--out", "/dev/stdout");
    std::string only = arg(a, "--only");
    std::vector<std::size_t> which;
    {
        std::regex re(only.empty() ? ".*" : only);
        for (std::size_t i = 0; i < sites.size(); ++i)
            if (std::regex_search(sites[i].name, re)) which.push_back(i);
    }
    {
        std::string shard = arg(a, "--shard");
        if (!shard.empty()) {
            auto sl = shard.find('/');
            std::size_t k = std::stoull(shard.substr(0, sl)), n = std::stoull(shard.substr(sl + 1));
            std::vector<std::size_t> w2;
            for (std::size_t j = 0; j < which.size(); ++j)
                if (j % n == k) w2.push_back(which[j]);
            which = w2;
        }
    }
    std::vector<SiteStats> stats(sites.size());
    std::uint64_t seed = std::stoull(arg(a, "--seed", "1"));
    bool any_fail = false;
    std::size_t const max_samples = 2;

    if (mode == "rc") {
        int cases = std::stoi(arg(a, "--cases", "1000"));
        int nwords = std::stoi(arg(a, "--words", "16"));
        for (std::size_t si : which) {
            Site const& site = sites[si];
            SiteStats& st = stats[si];
            rc::detail::TestParams params;
            params.seed = mix(seed, std::hash<std::string>{}(site.name));
            params.maxSuccess = cases;
            params.maxSize = 100;
            params.maxDiscardRatio = 1000;
            rc::detail::TestMetadata md;
            md.id = site.name;
            md.description = site.name;
            Silent listener;
            // several rounds: after an unlisted failure of one class the search goes on for other classes
            std::vector<std::string> classes_seen;
            for (int round = 0; round < 4; ++round) {
                Failure last;
                bool shrinking = false;
                params.seed = mix(params.seed, round);
                auto prop = [&]() {
                    auto words = *rc::gen::resize(
                            100, rc::gen::container<std::vector<std::uint64_t>>(
                                         static_cast<std::size_t>(nwords), rc::gen::arbitrary<std::uint64_t>()));
                    Outcome o;
                    Words w{words.data(), words.size(), 0};
                    site.run(w, o, nullptr);
                    if (o.kind == Outcome::FAIL) {
                        if (!shrinking) account_region(st, o);
                        if (Known const* k = match_known(site.name, o.fclass)) {
                            if (!shrinking) {
                                ++st.cases;
                                if (st.excluded[k->id]++ == 0) st.excluded_example[k->id] = describe_words(site, words);
                                if (st.excluded_classes[k->id].size() < 64 || st.excluded_classes[k->id].count(o.fclass)) ++st.excluded_classes[k->id][o.fclass];
                            }
                            return;  // explored, excluded
                        }
                        if (std::find(classes_seen.begin(), classes_seen.end(), o.fclass) != classes_seen.end()) {
                            if (!shrinking) ++st.cases;
                            return;  // already reported in an earlier round
                        }
                        if (!shrinking) {
                            ++st.cases;
                            ++st.fails;
                        }
                        shrinking = true;
                        last.words = words;
                        last.cls = o.fclass;
                        last.msg = o.msg;
                        RC_FAIL(o.msg);
                    }
                    if (shrinking) return;  // passing shrink candidates are not part of the campaign
                    account(si, st, o, false);
                    if (o.kind == Outcome::PASS && o.nontrivial && st.samples.size() < max_samples)
                        st.samples.push_back(describe_words(site, words));
                };
                auto result = rc::detail::checkTestable(prop, md, params, listener);
                if (result.template is<rc::detail::SuccessResult>() || result.template is<rc::detail::GaveUpResult>()) break;
                // failure: 'last' holds the smallest failing case seen
                last.desc = describe_words(site, last.words);
                classes_seen.push_back(last.cls);
                st.failures.push_back(last);
                any_fail = true;
            }
        }
        write_result(out, mode, stats, which, seed);
        return any_fail ? 1 : 0;
    }

    if (mode == "harvest") {
        // in-region corpus (DESIGN 9.4): cases that lie inside an oracle-side cause region and satisfy the property on this tree.
        // Output lines: site <TAB> region <TAB> words (decimal, space separated, trailing zeros dropped)
        int cases = std::stoi(arg(a, "--cases", "100000"));
        int nwords = std::stoi(arg(a, "--words", "16"));
        std::size_t per = std::stoull(arg(a, "--per", "8"));
        std::ofstream f(out);
        for (std::size_t si : which) {
            Site const& site = sites[si];
            std::uint64_t x = mix(seed, std::hash<std::string>{}(site.name)) | 1;
            auto next = [&] {
                x ^= x << 13;
                x ^= x >> 7;
                x ^= x << 17;
                return x;
            };
            std::map<std::string, std::size_t> have;
            std::unordered_set<std::uint64_t> seen;
            std::vector<std::uint64_t> words(static_cast<std::size_t>(nwords));
            for (int c = 0; c < cases; ++c) {
                for (auto& wd : words) wd = next();
                // sparse vectors as well: a few leading words, the rest zero (the simplest operands)
                if (c % 3 == 1)
                    for (std::size_t i = 2 + static_cast<std::size_t>(next() % 6); i < words.size(); ++i) words[i] = 0;
                Outcome o;
                Words w{words.data(), words.size(), 0};
                site.run(w, o, nullptr);
                if (o.kind != Outcome::PASS || o.region.empty()) continue;
                std::size_t& n = have[o.region];
                if (n >= per || !seen.insert(o.fp).second) continue;
                bool stable = true;
                for (int rep = 0; rep < 2 && stable; ++rep) {
                    Outcome o2;
                    Words w2{words.data(), words.size(), 0};
                    site.run(w2, o2, nullptr);
                    stable = o2.kind == Outcome::PASS && o2.region == o.region;
                }
                if (!stable) continue;
                ++n;
                std::size_t last = std::min(words.size(), w.i);  // words the decoder never read do not matter
                while (last > 0 && words[last - 1] == 0) --last;
                f << site.name << '\t' << o.region << '\t';
                for (std::size_t i = 0; i < last; ++i) f << (i ? " " : "") << words[i];
                f << '\n';
            }
        }
        return 0;
    }

    if (mode == "corpus") {
        // replays the in-region corpus: every line satisfied the property when it was harvested, so a failure now is reported
        // whether or not its class is a listed finding
        std::ifstream f(arg(a, "--corpus"));
        std::map<std::string, std::size_t> index;
        for (std::size_t si : which) index[sites[si].name] = si;
        std::string line;
        std::set<std::size_t> used;
        while (std::getline(f, line)) {
            auto t1 = line.find('\t');
            auto t2 = line.find('\t', t1 + 1);
            if (t1 == std::string::npos || t2 == std::string::npos) continue;
            auto it = index.find(line.substr(0, t1));
            if (it == index.end()) continue;
            std::size_t si = it->second;
            used.insert(si);
            Site const& site = sites[si];
            SiteStats& st = stats[si];
            std::vector<std::uint64_t> words;
            std::istringstream ws(line.substr(t2 + 1));
            std::uint64_t v;
            while (ws >> v) words.push_back(v);
            words.resize(std::max<std::size_t>(words.size(), 64), 0);
            Outcome o;
            Words w{words.data(), words.size(), 0};
            site.run(w, o, nullptr);
            if (o.kind == Outcome::FAIL) {
                ++st.cases;
                ++st.fails;
                std::string cls = "in-region-regression/" + o.fclass;
                ++st.failclasses[cls];
                bool have = false;
                for (auto const& fl : st.failures) have = have || fl.cls == cls;
                if (!have && st.failures.size() < 4) {
                    Failure fl;
                    fl.words = words;
                    fl.from_corpus = true;
                    fl.cls = cls;
                    fl.msg = o.msg + " (this input, inside region " + line.substr(t1 + 1, t2 - t1 - 1) + ", satisfied the property on the reference tree)";
                    fl.desc = describe_words(site, words);
                    st.failures.push_back(fl);
                    any_fail = true;
                }
                continue;
            }
            account(si, st, o, false);
        }
        std::vector<std::size_t> u2(used.begin(), used.end());
        write_result(out, mode, stats, u2, seed);
        return any_fail ? 1 : 0;
    }

    if (mode == "survey") {
        // diagnostic only (never part of a verdict): uniformly random word vectors, every failure tallied by class, no shrinking
        int cases = std::stoi(arg(a, "--cases", "100000"));
        int nwords = std::stoi(arg(a, "--words", "16"));
        for (std::size_t si : which) {
            Site const& site = sites[si];
            SiteStats& st = stats[si];
            std::uint64_t x = mix(seed, std::hash<std::string>{}(site.name)) | 1;
            auto next = [&] {
                x ^= x << 13;
                x ^= x >> 7;
                x ^= x << 17;
                return x;
            };
            std::vector<std::uint64_t> words(static_cast<std::size_t>(nwords));
            for (int c = 0; c < cases; ++c) {
                for (auto& wd : words) wd = next();
                Outcome o;
                Words w{words.data(), words.size(), 0};
                site.run(w, o, nullptr);
                if (o.kind == Outcome::FAIL) {
                    account_region(st, o);
                    ++st.cases;
                    ++st.fails;
                    ++st.failclasses[o.fclass];
                    continue;
                }
                account(si, st, o, false);
            }
        }
        write_result(out, mode, stats, which, seed);
        return 0;
    }

    if (mode == "enum") {
        std::uint64_t stripe_k = 0, stripe_n = 1;
        std::string stripe = arg(a, "--stripe");
        if (!stripe.empty()) {
            auto sl = stripe.find('/');
            stripe_k = std::stoull(stripe.substr(0, sl));
            stripe_n = std::stoull(stripe.substr(sl + 1));
        }
        std::uint64_t max_size = std::stoull(arg(a, "--max-size", "16777216"));
        std::vector<std::size_t> used;
        for (std::size_t si : which) {
            Site const& site = sites[si];
            if (site.enum_size == 0 || site.enum_size > max_size) continue;
            used.push_back(si);
            SiteStats& st = stats[si];
            st.exhaustive = (stripe_n == 1);
            std::uint64_t lo = site.enum_size / stripe_n * stripe_k;
            std::uint64_t hi = (stripe_k + 1 == stripe_n) ? site.enum_size : site.enum_size / stripe_n * (stripe_k + 1);
            for (std::uint64_t idx = lo; idx < hi; ++idx) {
                Outcome o;
                site.run_enum(idx, o, nullptr);
                if (o.kind == Outcome::FAIL) {
                    account_region(st, o);
                    ++st.cases;
                    if (Known const* k = match_known(site.name, o.fclass)) {
                        if (st.excluded_classes[k->id].size() < 64 || st.excluded_classes[k->id].count(o.fclass)) ++st.excluded_classes[k->id][o.fclass];
                        if (st.excluded[k->id]++ == 0) {
                            std::string d;
                            Outcome o2;
                            site.run_enum(idx, o2, &d);
                            st.excluded_example[k->id] = d;
                        }
                        continue;
                    }
                    ++st.fails;
                    ++st.failclasses[o.fclass];
                    bool have = false;
                    for (auto const& f : st.failures) have = have || f.cls == o.fclass;
                    if (!have && st.failures.size() < 8) {
                        Failure f;
                        f.is_enum = true;
                        f.enum_idx = idx;
                        f.cls = o.fclass;
                        f.msg = o.msg;
                        Outcome o2;
                        site.run_enum(idx, o2, &f.desc);
                        st.failures.push_back(f);
                    }
                    any_fail = true;
                    continue;
                }
                account(si, st, o, true);
                if (o.kind == Outcome::PASS && o.nontrivial && st.samples.size() < max_samples) {
                    std::string d;
                    Outcome o2;
                    site.run_enum(idx, o2, &d);
                    st.samples.push_back(d);
                }
            }
        }
        write_result(out, mode, stats, used, seed);
        return any_fail ? 1 : 0;
    }
    std::fprintf(stderr, "unknown mode %s\n", mode.c_str());
    return 2;
}

// Moving exact values in and out of CNL types without using CNL arithmetic:
// native integers directly, uintwide_t through its limb array, wrappers through to_rep/from_rep.
#pragma once
#include "core.h"

#include <cnl/all.h>

namespace vf {

template<class T>
inline constexpr bool is_uintwide_v = cnl::_impl::is_uintwide_v<T>;

// value of the innermost integer representation (ignores any scaling exponent)
template<class T>
mpz_class rep_mpz(T const& x)
{
    if constexpr (is_native_int_v<T>) {
        return to_mpz(x);
    } else if constexpr (is_uintwide_v<T>) {
        auto const& limbs = x.crepresentation();
        using limb = typename T::limb_type;
        constexpr int lb = std::numeric_limits<limb>::digits;
        mpz_class z = 0;
        for (std::size_t i = limbs.size(); i-- > 0;) z = (z << lb) + to_mpz(static_cast<std::uint64_t>(limbs[i]));
        if constexpr (cnl::numbers::signedness_v<T>) {
            mpz_class top = mpz_class(1) << (int(limbs.size()) * lb);
            if (z >= (top >> 1)) z -= top;
        }
        return z;
    } else {
        return rep_mpz(cnl::_impl::to_rep(x));
    }
}

// storage width in bits of the innermost representation
template<class T>
constexpr int rep_width()
{
    if constexpr (is_native_int_v<T>)
        return bits_v<T>;
    else if constexpr (is_uintwide_v<T>)
        return int(T::my_width2);
    else
        return rep_width<cnl::_impl::rep_of_t<T>>();
}
template<class T>
constexpr bool rep_signed()
{
    if constexpr (is_native_int_v<T>)
        return is_signed_int_v<T>;
    else
        return cnl::numbers::signedness_v<T>;
}

// construct T whose innermost representation holds z (reduced modulo the storage width)
template<class T>
T make_rep(mpz_class const& z)
{
    if constexpr (is_native_int_v<T>) {
        return wrap_to<T>(z);
    } else if constexpr (is_uintwide_v<T>) {
        T r{};
        auto& limbs = r.representation();
        using limb = typename T::limb_type;
        constexpr int lb = std::numeric_limits<limb>::digits;
        mpz_class m = mpz_class(1) << (int(limbs.size()) * lb);
        mpz_class v = z % m;
        if (v < 0) v += m;
        mpz_class mask = (mpz_class(1) << lb) - 1;
        for (std::size_t i = 0; i < limbs.size(); ++i) {
            mpz_class part = v & mask;
            limbs[i] = static_cast<limb>(wrap_to<std::uint64_t>(part));
            v >>= lb;
        }
        return r;
    } else {
        using rep = cnl::_impl::rep_of_t<T>;
        return cnl::_impl::from_rep<T>(make_rep<rep>(z));
    }
}

// draw a value of `digits` value-bits (plus sign if is_signed) as mpz, from words, boundary-rich
// with_lowest: the type is two's complement, so -(2^digits) is a value too (drawn as a special and as the power of two 2^digits)
inline mpz_class draw_mpz(Words& w, int digits, bool is_signed, bool with_lowest = false)
{
    std::uint64_t c = w.next();
    unsigned cls = unsigned(c % 100);
    std::uint64_t r = c / 100;
    mpz_class max = (mpz_class(1) << digits) - 1;
    mpz_class v;
    bool neg = is_signed && ((r & 1) != 0);
    r >>= 1;
    if (cls < 15) {
        switch (r % (with_lowest ? 7 : 6)) {
        case 0: v = 0; break;
        case 1: v = 1; break;
        case 2: v = max; break;
        case 3: v = max - 1; break;
        case 4: v = 2; break;
        case 5: v = max >> 1; break;
        default: v = neg ? mpz_class(max + 1) : max; break;
        }
    } else if (cls < 40) {
        int k = int(r % (unsigned(digits) + 1));
        int d = int((r / (unsigned(digits) + 1)) % 3) - 1;
        v = (mpz_class(1) << k) + d;
    } else if (cls < 55) {
        // limb-structured patterns: all-ones low limbs, alternating, single clear bit
        int k = int((r / 4) % unsigned(digits));
        switch (r % 4) {
        case 0: v = max >> k; break;
        case 1: v = max / 3; break;
        case 2: v = max ^ (mpz_class(1) << k); break;
        default: v = (max >> k) << (k / 2); break;
        }
    } else {
        int len = cls < 80 ? int(r % (unsigned(digits) + 1)) : digits;
        v = 0;
        for (int got = 0; got < len; got += 64) v = (v << 64) + to_mpz(w.next());
        if (len == 0)
            v = 0;
        else {
            v &= (mpz_class(1) << len) - 1;
            if (cls < 80) v |= mpz_class(1) << (len - 1);
        }
    }
    if (v < 0) v = 0;
    if (v > max) v = (with_lowest && neg && v == max + 1) ? v : max;
    return neg ? mpz_class(-v) : v;
}

}  // namespace vf

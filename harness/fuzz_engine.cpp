// libFuzzer engine (DESIGN 2.1 "fuzz"): coverage-guided search over the same site table as the rapidcheck engine.
// Input bytes: [0..1] site selector, then 8-byte little-endian words (zero padded) that the site decodes into typed operands,
// i.e. structure-aware decoding; the semantic oracle runs inside the target. Built with
//   clang++ -fsanitize=fuzzer,address,undefined -fsanitize-trap=undefined
// A failure that is not a listed known finding writes <out>/fail-<n>.json (site, words, class, message) and aborts, so libFuzzer
// saves the input as a crash artifact; ASan errors end the process the same way. Counters go to <out>/stats.json at exit
// and before every abort.
//
// Environment: VERIF_FUZZ_OUT (directory), VERIF_KNOWN (TSV of known findings), VERIF_FUZZ_ONLY (regex over site names)
#include "core.h"

#include <fstream>
#include <regex>
#include <unordered_set>

namespace vf {
GuardState& gs()
{
    static GuardState g;
    return g;
}
}  // namespace vf
using namespace vf;

extern "C" void johnmcfarlane_cnl_verif_abort_hook(char const* message)
{
    GuardState& g = gs();
    if (!g.armed) return;
    std::strncpy(g.abort_msg, message ? message : "", sizeof g.abort_msg - 1);
    g.abort_msg[sizeof g.abort_msg - 1] = 0;
    g.what = "abort";
    siglongjmp(g.jb, 1);
}
extern "C" void johnmcfarlane_cnl_verif_tick_hook(int)
{
    GuardState& g = gs();
    if (!g.armed) return;
    if (++g.ticks > g.tick_limit) {
        g.what = "no-termination";
        siglongjmp(g.jb, 1);
    }
}
static void on_signal(int sig)
{
    GuardState& g = gs();
    if (!g.armed) {
        signal(sig, SIG_DFL);
        raise(sig);
        return;
    }
    g.what = sig == SIGILL ? "ub-trap" : sig == SIGFPE ? "sigfpe"
                                                       : "signal";
    siglongjmp(g.jb, 1);
}

struct Known {
    std::string id;
    std::regex site, cls;
};
static std::vector<Known> g_known;
static std::vector<std::size_t> g_sites;
static std::string g_out = ".";
static std::uint64_t n_exec, n_pass, n_discard, n_nontrivial, n_distinct, n_excluded, n_fail;
static std::unordered_set<std::uint64_t> g_seen;
static std::map<std::string, std::uint64_t> g_labels, g_excl;
static std::vector<std::string> g_samples;

static std::string jesc(std::string const& s)
{
    std::string o;
    for (unsigned char c : s) {
        if (c == '"' || c == '\\') {
            o += '\\';
            o += static_cast<char>(c);
        } else if (c < 0x20 || c >= 0x7f) {
            char b[8];
            std::snprintf(b, sizeof b, "\\u%04x", c);
            o += b;
        } else
            o += static_cast<char>(c);
    }
    return o;
}
static void dump_stats()
{
    std::ofstream f(g_out + "/stats.json");
    f << "{\"executions\":" << n_exec << ",\"pass\":" << n_pass << ",\"discard\":" << n_discard << ",\"nontrivial\":" << n_nontrivial
      << ",\"distinct_nontrivial\":" << n_distinct << ",\"excluded\":" << n_excluded << ",\"failures\":" << n_fail << ",\"labels\":{";
    bool first = true;
    for (auto const& kv : g_labels) {
        f << (first ? "" : ",") << "\"" << jesc(kv.first) << "\":" << kv.second;
        first = false;
    }
    f << "},\"excluded_by_id\":{";
    first = true;
    for (auto const& kv : g_excl) {
        f << (first ? "" : ",") << "\"" << jesc(kv.first) << "\":" << kv.second;
        first = false;
    }
    f << "},\"samples\":[";
    for (std::size_t i = 0; i < g_samples.size(); ++i) f << (i ? "," : "") << "\"" << jesc(g_samples[i]) << "\"";
    f << "]}\n";
}

extern "C" int LLVMFuzzerInitialize(int*, char***)
{
    if (char const* o = std::getenv("VERIF_FUZZ_OUT")) g_out = o;
    if (char const* k = std::getenv("VERIF_KNOWN")) {
        std::ifstream f(k);
        std::string line;
        while (std::getline(f, line)) {
            auto a = line.find('\t');
            auto b = line.find('\t', a + 1);
            if (a == std::string::npos || b == std::string::npos) continue;
            g_known.push_back({line.substr(0, a), std::regex(line.substr(a + 1, b - a - 1)), std::regex(line.substr(b + 1))});
        }
    }
    std::regex only(std::getenv("VERIF_FUZZ_ONLY") ? std::getenv("VERIF_FUZZ_ONLY") : ".*");
    for (std::size_t i = 0; i < registry().size(); ++i)
        if (std::regex_search(registry()[i].name, only)) g_sites.push_back(i);
    if (char const* t = std::getenv("VERIF_TICK_LIMIT")) gs().tick_limit = std::atol(t);
    struct sigaction sa {};
    sa.sa_handler = on_signal;
    sa.sa_flags = SA_NODEFER;
    sigemptyset(&sa.sa_mask);
    sigaction(SIGILL, &sa, nullptr);
    sigaction(SIGFPE, &sa, nullptr);
    std::atexit(dump_stats);
    return 0;
}

extern "C" int LLVMFuzzerTestOneInput(std::uint8_t const* data, std::size_t size)
{
    if (g_sites.empty() || size < 2) return 0;
    std::size_t si = g_sites[(static_cast<std::size_t>(data[0]) | (static_cast<std::size_t>(data[1]) << 8)) % g_sites.size()];
    std::vector<std::uint64_t> words((size - 2 + 7) / 8, 0);
    if (!words.empty()) std::memcpy(words.data(), data + 2, size - 2);
    words.resize(64, 0);
    Site const& site = registry()[si];
    Outcome o;
    Words w{words.data(), words.size(), 0};
    ++n_exec;
    site.run(w, o, nullptr);
    if (o.kind == Outcome::DISCARD) {
        ++n_discard;
        return 0;
    }
    if (o.kind == Outcome::PASS) {
        ++n_pass;
        ++g_labels[o.label];
        if (o.nontrivial) {
            ++n_nontrivial;
            if (g_seen.insert(mix(o.fp, si)).second) {
                ++n_distinct;
                if (g_samples.size() < 6) {
                    std::string d;
                    Outcome o2;
                    Words w2{words.data(), words.size(), 0};
                    site.run(w2, o2, &d);
                    g_samples.push_back(site.name + ": " + d);
                }
            }
        }
        return 0;
    }
    for (auto const& k : g_known)
        if (std::regex_match(site.name, k.site) && std::regex_match(o.fclass, k.cls)) {
            ++n_excluded;
            ++g_excl[k.id];
            return 0;
        }
    ++n_fail;
    std::string d;
    {
        Outcome o2;
        Words w2{words.data(), words.size(), 0};
        site.run(w2, o2, &d);
    }
    std::ofstream f(g_out + "/fail-" + std::to_string(n_fail) + ".json");
    f << "{\"site\":\"" << jesc(site.name) << "\",\"class\":\"" << jesc(o.fclass) << "\",\"msg\":\"" << jesc(o.msg) << "\",\"desc\":\"" << jesc(d) << "\",\"words\":[";
    for (std::size_t i = 0; i < words.size(); ++i) f << (i ? "," : "") << "\"" << words[i] << "\"";
    f << "]}\n";
    f.close();
    dump_stats();
    std::fprintf(stderr, "VERIF-FUZZ-FAILURE site=%s class=%s :: %s | %s\n", site.name.c_str(), o.fclass.c_str(), o.msg.c_str(), d.c_str());
    std::abort();
}

// C06, trapping tag: "terminates the program". Real process death, without the in-process recovery of the guard:
// the hooks are present (the TU is built with the verification define) but simply return, so cnl::_impl::abort
// prints its message and calls std::abort. argv[1] selects the case; the driver checks SIGABRT and the text on stderr.
#include <cnl/all.h>

#include <cstdio>
#include <cstdlib>
#include <limits>

extern "C" void johnmcfarlane_cnl_verif_abort_hook(char const*) {}
extern "C" void johnmcfarlane_cnl_verif_tick_hook(int) {}

int main(int argc, char** argv)
{
    using T = cnl::trapping_overflow_tag;
    namespace ci = cnl::_impl;
    int k = argc > 1 ? std::atoi(argv[1]) : 0;
    // values come through volatiles so that nothing is folded at compile time
    volatile int vbig = std::numeric_limits<int>::max(), vsmall = std::numeric_limits<int>::lowest(), vtwo = 2, vthree = 300, vmthree = -300;
    int const big = vbig, small = vsmall, two = vtwo, three = vthree, mthree = vmthree;
    long r = 0;
    switch (k) {
    case 0: r = cnl::custom_operator<ci::add_op, cnl::op_value<int, T>, cnl::op_value<int, T>>{}(big, two); break;  // positive
    case 1: r = cnl::custom_operator<ci::add_op, cnl::op_value<int, T>, cnl::op_value<int, T>>{}(small, -two); break;  // negative
    case 2: r = cnl::custom_operator<ci::multiply_op, cnl::op_value<int, T>, cnl::op_value<int, T>>{}(big, two); break;  // positive
    case 3: r = cnl::custom_operator<ci::multiply_op, cnl::op_value<int, T>, cnl::op_value<int, T>>{}(small, two); break;  // negative
    case 4: r = cnl::convert<T, signed char>{}(three); break;  // positive
    case 5: r = cnl::convert<T, signed char>{}(mthree); break;  // negative
    case 6: r = ci::to_rep(cnl::overflow_integer<int, T>{big} + cnl::overflow_integer<int, T>{two}); break;  // positive
    case 7: r = ci::to_rep(cnl::overflow_integer<int, T>{small} - cnl::overflow_integer<int, T>{two}); break;  // negative
    case 8: r = cnl::custom_operator<ci::add_op, cnl::op_value<int, T>, cnl::op_value<int, T>>{}(big - two, two); break;  // no overflow: must return
    default: r = cnl::convert<T, signed char>{}(two); break;  // no overflow
    }
    std::printf("returned %ld\n", r);
    return 0;
}

// Core of the verification harness: cases, outcomes, site registry, guard, operand decoding,
// exact-arithmetic helpers. Included by every site TU *before* any CNL header.
// No rapidcheck / libFuzzer in here: sites are plain functions (DESIGN 2.1).
#pragma once

#include <gmpxx.h>

#include <algorithm>
#include <cfloat>
#include <cmath>
#include <csetjmp>
#include <csignal>
#include <cstdint>
#include <cstdio>
#include <cstring>
#include <functional>
#include <limits>
#include <map>
#include <stdexcept>
#include <string>
#include <type_traits>
#include <vector>

namespace vf {

using i128 = __int128;
using u128 = unsigned __int128;

////////////////////////////////////////////////////////////////////////////////
// outcome of one case at one site

struct Outcome {
    enum Kind { PASS = 0,
                DISCARD = 1,
                FAIL = 2 };
    Kind kind = PASS;
    bool nontrivial = false;
    char const* label = "";  // class label for the histogram (static storage)
    std::uint64_t fp = 0;  // fingerprint of the decoded operands (distinctness)
    std::string fclass;  // failure class (cause recognised independently of CNL, else raw symptom)
    std::string msg;  // expected / observed
    std::string region;  // cause region of a listed finding the case lies in, as the oracle sees it from the operands ("" = none);
                         // tallied by the engines so that every run reports how many cases inside each region pass and fail
    void take_failure(Outcome const& t)  // adopt the verdict of a nested guard, keeping fingerprint and region
    {
        kind = t.kind;
        fclass = t.fclass;
        msg = t.msg;
    }
    void pass(bool nt, char const* lab)
    {
        kind = PASS;
        nontrivial = nt;
        label = lab;
    }
    void discard(char const* why)
    {
        kind = DISCARD;
        label = why;
    }
    void fail(std::string cls, std::string m)
    {
        kind = FAIL;
        fclass = std::move(cls);
        msg = std::move(m);
    }
};

////////////////////////////////////////////////////////////////////////////////
// the raw material of a generated case: a fixed-length vector of 64-bit words.
// rapidcheck generates/shrinks the words, libFuzzer mutates them as bytes, replay files store them.

struct Words {
    std::uint64_t const* p = nullptr;
    std::size_t n = 0;
    std::size_t i = 0;
    std::uint64_t next() { return i < n ? p[i++] : 0; }
};

struct Site {
    std::string name;
    // decode operands from words and check; desc (optional) receives a readable rendering
    std::function<void(Words&, Outcome&, std::string*)> run;
    // exhaustive enumeration (0 = not enumerable): case number idx of enum_size
    std::uint64_t enum_size = 0;
    std::function<void(std::uint64_t, Outcome&, std::string*)> run_enum;
};

inline std::vector<Site>& registry()
{
    static std::vector<Site> r;
    return r;
}

struct Registrar {
    explicit Registrar(void (*f)()) { f(); }
};

inline void add_site(Site s) { registry().push_back(std::move(s)); }

////////////////////////////////////////////////////////////////////////////////
// guard: UB traps, signals, CNL abort/unreachable and runaway loops become failures

struct GuardState {
    sigjmp_buf jb;
    volatile sig_atomic_t armed = 0;
    char const* volatile what = "";  // "ub-trap" / "sigfpe" / "sigsegv" / "abort" / "no-termination"
    char abort_msg[512] = {0};
    volatile long ticks = 0;
    long tick_limit = 100000;
};
GuardState& gs();  // defined in the engine

// returns true when f ran to completion; otherwise o is a FAIL describing the trap
template<class F>
bool guard(Outcome& o, F&& f)
{
    GuardState& g = gs();
    g.ticks = 0;
    g.abort_msg[0] = 0;
    if (sigsetjmp(g.jb, 1) == 0) {
        g.armed = 1;
        f();
        g.armed = 0;
        return true;
    }
    g.armed = 0;
    std::string cls = g.what;
    std::string msg = g.what;
    if (cls == "abort") {
        msg = g.abort_msg;
        // CNL_ASSERT text is "<path>:<line> assert: <expr>": keep the file's base name and the expression,
        // drop directories and line numbers so that the class is stable across checkouts and edits
        std::string m = msg;
        auto a = m.find(" assert: ");
        if (a != std::string::npos) {
            std::string loc = m.substr(0, a), expr = m.substr(a + 9);
            auto colon = loc.rfind(':');
            if (colon != std::string::npos) loc = loc.substr(0, colon);
            auto slash = loc.rfind('/');
            if (slash != std::string::npos) loc = loc.substr(slash + 1);
            m = "assert:" + loc + ":" + expr;
        }
        cls = std::string("abort:") + m;
    }
    o.fail(cls, msg);
    return false;
}

// like guard, but an abort whose message is an overflow report is *returned* (trapping tag)
// result: 0 completed, 1 "positive overflow", -1 "negative overflow", 2 other overflow text;
// any other trap -> o is FAIL and the result is 99
template<class F>
int guard_trapping(Outcome& o, F&& f)
{
    Outcome tmp;
    if (guard(tmp, f)) return 0;
    if (tmp.fclass == "abort:positive overflow") return 1;
    if (tmp.fclass == "abort:negative overflow") return -1;
    if (tmp.fclass.rfind("abort:", 0) == 0 && tmp.fclass.find("overflow") != std::string::npos
        && tmp.fclass.find("assert") == std::string::npos)
        return 2;
    o.take_failure(tmp);
    return 99;
}

////////////////////////////////////////////////////////////////////////////////
// exact arithmetic helpers (GMP). Never share code with CNL.

inline mpz_class to_mpz(u128 v)
{
    mpz_class hi(static_cast<unsigned long>(static_cast<std::uint64_t>(v >> 64)));
    mpz_class lo(static_cast<unsigned long>(static_cast<std::uint64_t>(v)));
    return (hi << 64) + lo;
}
inline mpz_class to_mpz(mpz_class const& z) { return z; }
inline mpz_class to_mpz(i128 v)
{
    if (v >= 0) return to_mpz(static_cast<u128>(v));
    u128 m = ~static_cast<u128>(v) + 1;  // magnitude, also right for the most negative value
    return -to_mpz(m);
}
template<class T>
    requires(std::is_integral_v<T> && sizeof(T) <= 8)
inline mpz_class to_mpz(T v)
{
    if constexpr (std::is_signed_v<T>)
        return to_mpz(static_cast<i128>(v));
    else
        return to_mpz(static_cast<u128>(v));
}

template<class T>
inline constexpr bool is_int128_v = std::is_same_v<T, i128> || std::is_same_v<T, u128>;
template<class T>
inline constexpr bool is_native_int_v = std::is_integral_v<T> || is_int128_v<T>;
template<class T>
inline constexpr bool is_signed_int_v = std::is_same_v<T, i128> || (std::is_integral_v<T> && std::is_signed_v<T>);
template<class T>
inline constexpr int bits_v = int(sizeof(T) * 8);

template<class T>
struct make_unsigned_x {
    using type = std::make_unsigned_t<T>;
};
template<>
struct make_unsigned_x<i128> {
    using type = u128;
};
template<>
struct make_unsigned_x<u128> {
    using type = u128;
};
template<>
struct make_unsigned_x<bool> {
    using type = bool;
};
template<class T>
using make_unsigned_t = typename make_unsigned_x<T>::type;

template<class T>
constexpr T int_max()
{
    using U = make_unsigned_t<T>;
    if constexpr (is_signed_int_v<T>)
        return static_cast<T>(static_cast<U>(~U{0}) >> 1);
    else
        return static_cast<T>(~U{0});
}
template<class T>
constexpr T int_min()
{
    if constexpr (is_signed_int_v<T>)
        return static_cast<T>(-int_max<T>() - 1);
    else
        return T{0};
}

template<class T>
inline mpz_class zmax()
{
    return to_mpz(int_max<T>());
}
template<class T>
inline mpz_class zmin()
{
    return to_mpz(int_min<T>());
}
template<class T>
inline bool fits(mpz_class const& z)
{
    return z >= zmin<T>() && z <= zmax<T>();
}
// value of z reduced modulo 2^bits into T's range (two's complement), without UB
template<class T>
inline T wrap_to(mpz_class const& z)
{
    mpz_class m = mpz_class(1) << bits_v<T>;
    mpz_class r = z % m;
    if (r < 0) r += m;
    u128 u = 0;
    // export low 128 bits
    mpz_class lo = r & ((mpz_class(1) << 64) - 1);
    mpz_class hi = (r >> 64) & ((mpz_class(1) << 64) - 1);
    u = (static_cast<u128>(hi.get_ui()) << 64) | static_cast<u128>(lo.get_ui());
    using U = make_unsigned_t<T>;
    return static_cast<T>(static_cast<U>(u));
}
template<class T>
inline T from_mpz(mpz_class const& z)  // precondition: fits<T>(z)
{
    return wrap_to<T>(z);
}

inline mpq_class mkq(mpz_class const& n, mpz_class const& d = 1)
{
    mpq_class q(n, d);
    q.canonicalize();
    return q;
}
inline mpz_class zpow(unsigned long base, unsigned long e)
{
    mpz_class r;
    mpz_ui_pow_ui(r.get_mpz_t(), base, e);
    return r;
}
// radix^e as an exact rational
inline mpq_class qpow(int radix, int e)
{
    if (e >= 0) return mkq(zpow(radix, e));
    return mkq(1, zpow(radix, -e));
}
inline mpz_class q_trunc(mpq_class const& q)  // toward zero
{
    mpz_class r;
    mpz_tdiv_q(r.get_mpz_t(), q.get_num_mpz_t(), q.get_den_mpz_t());
    return r;
}
inline mpz_class q_floor(mpq_class const& q)
{
    mpz_class r;
    mpz_fdiv_q(r.get_mpz_t(), q.get_num_mpz_t(), q.get_den_mpz_t());
    return r;
}
inline mpz_class q_ceil(mpq_class const& q)
{
    mpz_class r;
    mpz_cdiv_q(r.get_mpz_t(), q.get_num_mpz_t(), q.get_den_mpz_t());
    return r;
}
inline bool q_is_int(mpq_class const& q) { return q.get_den() == 1; }
// nearest, ties away from zero
inline mpz_class q_round_half_away(mpq_class const& q)
{
    mpq_class h = mkq(1, 2);
    if (q >= 0) return q_floor(q + h);
    return q_ceil(q - h);
}
// nearest, ties toward +inf
inline mpz_class q_round_half_up(mpq_class const& q) { return q_floor(q + mkq(1, 2)); }

// exact value of a finite floating-point number
template<class F>
inline mpq_class q_of_float(F x)
{
    int e = 0;
    long double m = std::frexp(static_cast<long double>(x), &e);  // x = m * 2^e, |m| in [0.5,1)
    // 64 significand bits are enough for long double
    long double scaled = std::ldexp(m, 64);
    bool neg = scaled < 0;
    if (neg) scaled = -scaled;
    u128 mant = static_cast<u128>(scaled);  // exact: < 2^64
    mpz_class zm = to_mpz(mant);
    if (neg) zm = -zm;
    return mkq(zm) * qpow(2, e - 64);
}

inline std::string zstr(mpz_class const& z) { return z.get_str(); }
inline std::string qstr(mpq_class const& q) { return q.get_str(); }
template<class T>
    requires is_native_int_v<T>
inline std::string istr(T v)
{
    return to_mpz(v).get_str();
}
inline std::string fstr(long double x)
{
    char b[64];
    std::snprintf(b, sizeof b, "%La", x);
    return b;
}

////////////////////////////////////////////////////////////////////////////////
// fingerprints

inline std::uint64_t mix(std::uint64_t h, std::uint64_t v)
{
    h ^= v + 0x9e3779b97f4a7c15ULL + (h << 6) + (h >> 2);
    h *= 0xff51afd7ed558ccdULL;
    h ^= h >> 33;
    return h;
}
template<class T>
    requires is_native_int_v<T>
inline std::uint64_t fp1(T v)
{
    u128 u = static_cast<u128>(static_cast<make_unsigned_t<T>>(v));
    return mix(static_cast<std::uint64_t>(u), static_cast<std::uint64_t>(u >> 64));
}
inline std::uint64_t fp1(long double x)
{
    unsigned char b[16] = {0};
    std::memcpy(b, &x, 10);
    std::uint64_t a, c;
    std::memcpy(&a, b, 8);
    std::memcpy(&c, b + 8, 8);
    return mix(a, c);
}
inline std::uint64_t fp1(double x) { return fp1(static_cast<long double>(x)); }
inline std::uint64_t fp1(float x) { return fp1(static_cast<long double>(x)); }
inline std::uint64_t fp1(mpz_class const& z) { return std::hash<std::string>{}(z.get_str(16)); }
inline std::uint64_t fp1(std::string const& s) { return std::hash<std::string>{}(s); }
template<class... A>
inline std::uint64_t fpn(A const&... a)
{
    std::uint64_t h = 0x1234567;
    ((h = mix(h, fp1(a))), ...);
    return h;
}

////////////////////////////////////////////////////////////////////////////////
// operand decoding (DESIGN 2.4): all-zero words decode to the simplest operands,
// so rapidcheck's shrinking of words toward 0 shrinks operands toward 0 / special values.

template<class T>
    requires is_native_int_v<T>
inline T draw_int(Words& w)
{
    using U = make_unsigned_t<T>;
    constexpr int W = bits_v<T>;
    std::uint64_t c = w.next();
    unsigned cls = static_cast<unsigned>(c % 100);
    std::uint64_t r = c / 100;
    auto wide = [&]() -> u128 {
        u128 v = w.next();
        if (W > 64) v |= static_cast<u128>(w.next()) << 64;
        return v;
    };
    if (cls < 15) {
        switch (r % 8) {
        case 0: return T{0};
        case 1: return T{1};
        case 2: return static_cast<T>(static_cast<U>(~U{0}));  // -1 or max
        case 3: return int_min<T>();
        case 4: return int_max<T>();
        case 5: return static_cast<T>(int_min<T>() + 1);
        case 6: return static_cast<T>(int_max<T>() - 1);
        default: return T{2};
        }
    }
    if (cls < 40) {  // +-(2^k + d)
        int k = static_cast<int>(r % W);
        int d = static_cast<int>((r / W) % 3) - 1;
        bool neg = ((r / (3 * W)) & 1) != 0;
        U v = static_cast<U>(static_cast<U>(U{1} << k) + static_cast<U>(d));
        if (neg) v = static_cast<U>(U{0} - v);
        return static_cast<T>(v);
    }
    if (cls < 55) {  // run patterns
        int k = static_cast<int>((r / 8) % W);
        U ones = static_cast<U>(~U{0});
        U v{};
        switch (r % 8) {
        case 0: v = static_cast<U>(ones / 0xFF * 0x0F); break;
        case 1: v = static_cast<U>(ones / 3); break;  // 0x5555
        case 2: v = static_cast<U>(ones / 3 * 2); break;  // 0xAAAA
        case 3: v = static_cast<U>(ones >> k); break;  // low ones
        case 4: v = static_cast<U>(ones << k); break;  // high ones
        case 5: v = static_cast<U>(ones ^ static_cast<U>(U{1} << k)); break;  // single clear bit
        case 6: v = static_cast<U>(U{1} << k); break;  // single set bit
        default: v = static_cast<U>((ones >> k) ^ (ones >> (k / 2))); break;  // a run in the middle
        }
        return static_cast<T>(v);
    }
    if (cls < 80) {  // random bits under a log-uniform bit length
        int len = static_cast<int>(r % (W + 1));
        bool neg = ((r / (W + 1)) & 1) != 0;
        u128 v = wide();
        if (len == 0)
            v = 0;
        else {
            if (len < 128) v &= ((static_cast<u128>(1) << len) - 1);
            v |= static_cast<u128>(1) << (len - 1);
        }
        U u = static_cast<U>(v);
        if (neg && is_signed_int_v<T>) u = static_cast<U>(U{0} - u);
        return static_cast<T>(u);
    }
    return static_cast<T>(static_cast<U>(wide()));
}

// small integer in [lo,hi], uniform-ish; 0 word -> lo
inline long draw_small(Words& w, long lo, long hi)
{
    std::uint64_t c = w.next();
    return lo + static_cast<long>(c % static_cast<std::uint64_t>(hi - lo + 1));
}

// floating point by bit pattern: finite values only unless allow_special
template<class F>
inline F draw_float(Words& w, int min_exp, int max_exp, bool allow_special = false)
{
    // value = sign * m * 2^e with m in [1,2) built from a mantissa class
    constexpr int P = std::numeric_limits<F>::digits;  // 24 / 53 / 64
    std::uint64_t c = w.next();
    unsigned cls = static_cast<unsigned>(c % 100);
    std::uint64_t r = c / 100;
    bool neg = (r & 1) != 0;
    r >>= 1;
    if (cls < 8) {
        switch (r % 4) {
        case 0: return F(0);
        case 1: return neg ? F(-1) : F(1);
        case 2: return neg ? F(-0.5) : F(0.5);
        default: return neg ? F(-2) : F(2);
        }
    }
    if (allow_special && cls < 12) {
        switch (r % 3) {
        case 0: return std::numeric_limits<F>::quiet_NaN();
        case 1: return neg ? -std::numeric_limits<F>::infinity() : std::numeric_limits<F>::infinity();
        default: return neg ? std::numeric_limits<F>::lowest() : std::numeric_limits<F>::max();
        }
    }
    int span = max_exp - min_exp + 1;
    int e = min_exp + static_cast<int>(r % static_cast<std::uint64_t>(span));
    std::uint64_t mw = w.next();
    std::uint64_t mant_mask = (P - 1 >= 64) ? ~std::uint64_t{0} : ((std::uint64_t{1} << (P - 1)) - 1);
    std::uint64_t frac = 0;  // P-1 fraction bits
    if (cls < 20)
        frac = 0;  // power of two
    else if (cls < 28)
        frac = 1;  // 1 ulp above
    else if (cls < 36)
        frac = mant_mask;  // all ones
    else if (cls < 50) {
        // few significant bits: k-bit fraction left aligned
        int k = 1 + static_cast<int>(mw % 12);
        std::uint64_t v = (mw >> 8) & ((std::uint64_t{1} << k) - 1);
        frac = (P - 1 - k >= 0) ? (v << (P - 1 - k)) & mant_mask : 0;
    } else
        frac = mw & mant_mask;
    long double m = 1.0L + std::ldexp(static_cast<long double>(frac), -(P - 1));
    long double v = std::ldexp(m, e);
    if (neg) v = -v;
    return static_cast<F>(v);
}

////////////////////////////////////////////////////////////////////////////////
// type names for site names / messages

template<class T>
struct tname {
    static std::string get() { return "?"; }
};
#define VF_TNAME(T, S) \
    template<> \
    struct tname<T> { \
        static std::string get() { return S; } \
    };
VF_TNAME(signed char, "i8")
VF_TNAME(unsigned char, "u8")
VF_TNAME(short, "i16")
VF_TNAME(unsigned short, "u16")
VF_TNAME(int, "i32")
VF_TNAME(unsigned, "u32")
VF_TNAME(long, "i64")
VF_TNAME(unsigned long, "u64")
VF_TNAME(long long, "i64ll")
VF_TNAME(unsigned long long, "u64ll")
VF_TNAME(i128, "i128")
VF_TNAME(u128, "u128")
VF_TNAME(float, "f32")
VF_TNAME(double, "f64")
VF_TNAME(long double, "f80")
VF_TNAME(char, "char")
VF_TNAME(bool, "bool")

}  // namespace vf

// registration helper for generated TUs
#define VF_CONCAT2(a, b) a##b
#define VF_CONCAT(a, b) VF_CONCAT2(a, b)
#define VF_REGISTER(fn) static vf::Registrar VF_CONCAT(vf_registrar_, __COUNTER__)(fn);

// exact values of scaled_integer operands: rep x radix^exponent as GMP rationals
#pragma once
#include "cnlval.h"

namespace vf {

template<class T>
struct scaled_info {
    static constexpr bool is_scaled = false;
    static constexpr int exponent = 0;
    static constexpr int radix = 2;
    using rep = T;
};
template<class Rep, int E, int R>
struct scaled_info<cnl::scaled_integer<Rep, cnl::power<E, R>>> {
    static constexpr bool is_scaled = true;
    static constexpr int exponent = E;
    static constexpr int radix = R;
    using rep = Rep;
};

// the real number a CNL integer or scaled_integer denotes
template<class T>
mpq_class value_of(T const& x)
{
    using I = scaled_info<std::remove_cvref_t<T>>;
    return mkq(rep_mpz(x)) * qpow(I::radix, I::exponent);
}

// representable range of an integer-like type as exact integers (built-ins natively, CNL types via numeric_limits)
template<class T>
std::pair<mpz_class, mpz_class> range_of()
{
    if constexpr (is_native_int_v<T>)
        return {zmin<T>(), zmax<T>()};
    else
        return {rep_mpz(std::numeric_limits<T>::lowest()), rep_mpz(std::numeric_limits<T>::max())};
}
template<class T>
bool in_range(mpz_class const& z)
{
    auto r = range_of<T>();
    return z >= r.first && z <= r.second;
}

// draw a representation value for rep type Rep: built-ins by draw_int, others by digits
template<class Rep>
mpz_class draw_rep(Words& w)
{
    if constexpr (is_native_int_v<Rep>)
        return to_mpz(draw_int<Rep>(w));
    else {
        auto r = range_of<Rep>();
        int digits = int(mpz_sizeinbase(r.second.get_mpz_t(), 2));
        mpz_class v = draw_mpz(w, digits, r.first < 0, r.first == -r.second - 1);
        if (v > r.second) v = r.second;
        if (v < r.first) v = r.first;
        return v;
    }
}

template<class T>
std::string type_label()
{
    return tname<T>::get();
}

}  // namespace vf
